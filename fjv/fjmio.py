"""Environment stubs for symbolically executing the real .fjm Writer / Reader (C06, C10, C14, C02...).

  struct.pack / unpack  -> pure-python little-endian codec over SymBytes, struct.error on a range / length miss
  open                  -> in-memory files that record every write call in order (torn-write reasoning)
  lzma                  -> compress = tagging (LZ blob); decompress(LZ blob) = payload; decompress(anything else) is
                           LZMAError or arbitrary bounded bytes (both explored)
  range                 -> lazy range whose bound may be symbolic (forks per iteration)
  Reader.memory         -> SymDict (association list with symbolic keys) installed through a property on a subclass
"""
from __future__ import annotations

import builtins
import lzma as real_lzma
import struct as real_struct
from typing import Any, Dict, Iterator, List, Optional, Tuple

import z3

from fjv.pysym import (Engine, SymBytes, SymInt, SymBool, engine, is_sym, lift, mk, mkb, sym_hex, sym_int, to_z3, int_shim,
                       int_of)

_CODES = {'B': 1, 'H': 2, 'L': 4, 'I': 4, 'Q': 8}


def _parse_fmt(fmt: str) -> List[int]:
    assert fmt[0] == '<', fmt
    sizes: List[int] = []
    num = ''
    for ch in fmt[1:]:
        if ch.isdigit():
            num += ch
            continue
        sizes += [_CODES[ch]] * (int(num) if num else 1)
        num = ''
    return sizes


def sym_pack(fmt: str, *vals: Any) -> Any:
    sizes = _parse_fmt(fmt)
    if len(sizes) != len(vals):
        raise real_struct.error(f'pack expected {len(sizes)} items for packing (got {len(vals)})')
    if not any(is_sym(v) for v in vals):
        return real_struct.pack(fmt, *vals)
    E = engine()
    items: List[Any] = []
    for size, v in zip(sizes, vals):
        if not is_sym(v):
            items += list(real_struct.pack('<' + {1: 'B', 2: 'H', 4: 'L', 8: 'Q'}[size], v))
            continue
        e, lo, hi = lift(v)
        top = 1 << (8 * size)
        if lo < 0 or hi >= top:
            if E.branch(z3.Or(e < 0, e >= top)):
                raise real_struct.error(f'argument out of range for a {size}-byte unsigned field')
        items += [mk(z3.ZeroExt(E.W - 8, z3.Extract(8 * i + 7, 8 * i, e)), 0, 255) for i in range(size)]
    return SymBytes(items)


def sym_unpack(fmt: str, data: Any) -> Tuple[Any, ...]:
    sizes = _parse_fmt(fmt)
    if isinstance(data, LZBlob):
        raise real_struct.error('unpack on a compressed blob')
    if type(data) in (bytes, bytearray):
        return real_struct.unpack(fmt, data)
    if len(data) != sum(sizes):
        raise real_struct.error(f'unpack requires a buffer of {sum(sizes)} bytes')
    E = engine()
    out: List[Any] = []
    pos = 0
    for size in sizes:
        chunk = [data[pos + i] for i in range(size)]
        pos += size
        if not any(is_sym(b) for b in chunk):
            out.append(builtins.int.from_bytes(bytes(chunk), 'little'))
            continue
        parts = [z3.Extract(7, 0, lift(b)[0]) for b in reversed(chunk)]
        e = z3.Concat(*parts) if len(parts) > 1 else parts[0]
        out.append(mk(z3.ZeroExt(E.W - 8 * size, e), 0, (1 << (8 * size)) - 1))
    return tuple(out)


class from_bytes_int(int_shim):
    """`int` inside fjm modules: keeps proxies, and int.from_bytes works on SymBytes"""
    @staticmethod
    def from_bytes(data: Any, byteorder: str = 'big', *, signed: bool = False) -> Any:
        if type(data) in (bytes, bytearray):
            return builtins.int.from_bytes(data, byteorder, signed=signed)
        items = list(data)
        if byteorder == 'big':
            items.reverse()
        if signed:
            raise TypeError('signed from_bytes on symbolic bytes not modelled')
        r: Any = 0
        for i, b in enumerate(items):
            r = r + (b << (8 * i))
        return r


# ------------------------------------------------------------------------------------------ lzma

class LZBlob:
    """the result of compress(payload): opaque, of unknown length, never equal to a strict prefix of itself"""

    def __init__(self, payload: Any, torn: bool = False):
        self.payload, self.torn = payload, torn

    def __len__(self) -> int:
        return 1 << 20     # never used for arithmetic that matters; prevents "empty" tests from passing


class FakeLzma:
    """stands in for the lzma module inside fjm_writer / fjm_reader"""
    LZMAError = real_lzma.LZMAError
    FORMAT_RAW = real_lzma.FORMAT_RAW
    FILTER_LZMA2 = real_lzma.FILTER_LZMA2
    PRESET_DEFAULT = real_lzma.PRESET_DEFAULT

    def __init__(self, arbitrary_output_lengths: Tuple[int, ...] = ()):
        self.arbitrary_output_lengths = arbitrary_output_lengths
        self.n = 0

    def compress(self, data: Any, format: Any = None, filters: Any = None) -> Any:  # noqa: A002
        return LZBlob(data)

    def decompress(self, data: Any, format: Any = None, filters: Any = None) -> Any:  # noqa: A002
        if isinstance(data, LZBlob):
            if data.torn:
                raise real_lzma.LZMAError('Compressed data ended before the end-of-stream marker was reached')
            return data.payload
        if type(data) in (bytes, bytearray) and not self.arbitrary_output_lengths:
            return real_lzma.decompress(data, format=format, filters=filters)
        # arbitrary (symbolic) input bytes: the decoder either fails or yields arbitrary bytes of a bounded length
        E = engine()
        self.n += 1
        choice = sym_int(f'lzma_outcome{self.n}', 0, len(self.arbitrary_output_lengths))
        k = int_of(choice)
        if k == 0:
            raise real_lzma.LZMAError('corrupt input data')
        n = self.arbitrary_output_lengths[k - 1]
        return SymBytes([sym_int(f'lzma{self.n}_out{i}', 0, 255) for i in range(n)])


# ------------------------------------------------------------------------------------------ files

class MemFS:
    """path -> list of written chunks (bytes | SymBytes | LZBlob) in write-call order"""

    def __init__(self) -> None:
        self.files: Dict[str, List[Any]] = {}
        self.opened_for_write: List[str] = []

    def open(self, path: Any, mode: str = 'r', *a: Any, **k: Any) -> Any:
        p = str(path)
        if 'w' in mode:
            self.files[p] = []
            self.opened_for_write.append(p)
            return _WFile(self.files[p])
        if p not in self.files:
            raise FileNotFoundError(p)
        return _RFile(self.files[p])


class _WFile:
    def __init__(self, chunks: List[Any]):
        self.chunks = chunks

    def write(self, data: Any) -> int:
        self.chunks.append(data)
        return len(data) if not isinstance(data, LZBlob) else 0

    def __enter__(self) -> '_WFile':
        return self

    def __exit__(self, *a: Any) -> None:
        return None


def flatten(chunks: List[Any]) -> List[Any]:
    """items = byte values, with an LZBlob kept as ONE opaque item"""
    items: List[Any] = []
    for c in chunks:
        if isinstance(c, LZBlob):
            items.append(c)
        else:
            items += list(c)
    return items


class _RFile:
    def __init__(self, chunks: List[Any]):
        self.items = flatten(chunks)
        self.pos = 0

    def read(self, n: int = -1) -> Any:
        if is_sym(n):
            # a symbolic size (a length taken from the file itself): everything that is left when it reaches the end of the file
            # (one case, whatever its magnitude), else one case per smaller value
            left = len(self.items) - self.pos
            if n >= left:
                n = left
            else:
                from fjv.pysym import int_of
                n = int_of(n)
        if n is None or n < 0:
            rest = self.items[self.pos:]
            self.pos = len(self.items)
        else:
            rest = self.items[self.pos:self.pos + n]
            self.pos += len(rest)
        if any(isinstance(x, LZBlob) for x in rest):
            if len(rest) == 1:
                return rest[0]
            return SymBytes([0])   # a read that mixes plain bytes and the blob cannot happen for the reader's pattern
        if all(type(x) is int for x in rest):
            return bytes(rest)
        return SymBytes(rest)

    def __enter__(self) -> '_RFile':
        return self

    def __exit__(self, *a: Any) -> None:
        return None


# ------------------------------------------------------------------------------------------ range

def sym_range(*args: Any) -> Any:
    if not any(is_sym(a) for a in args):
        return builtins.range(*args)
    if len(args) == 1:
        start, stop, step = 0, args[0], 1
    elif len(args) == 2:
        start, stop, step = args[0], args[1], 1
    else:
        start, stop, step = args
    assert type(step) is int and step > 0

    def gen() -> Iterator[Any]:
        i = start
        n = 0
        while i < stop:
            yield i
            i = i + step
            n += 1
            if n > 4096:
                raise RuntimeError('fjv: symbolic range exceeded 4096 iterations (unbounded loop?)')
    return gen()


# ------------------------------------------------------------------------------------------ Reader.memory

class SymDict:
    """dict look-alike with symbolic int keys: an association list; lookups build if-then-else chains."""

    def __init__(self) -> None:
        self.entries: List[Tuple[Any, Any]] = []     # (key term BV(W), value term BV(W))

    def __setitem__(self, k: Any, v: Any) -> None:
        self.entries.append((lift(k)[0], lift(v)[0]))

    def has(self, kz: Any) -> Any:
        return z3.Or(*[kz == k for k, _ in self.entries]) if self.entries else z3.BoolVal(False)

    def val(self, kz: Any) -> Any:
        W = engine().W
        r = z3.BitVecVal(0, W)
        for k, v in self.entries:
            r = z3.If(kz == k, v, r)
        return r

    def __contains__(self, k: Any) -> bool:
        return engine().branch(self.has(lift(k)[0]))

    def __getitem__(self, k: Any) -> Any:
        kz = lift(k)[0]
        if not engine().branch(self.has(kz)):
            raise KeyError(k)
        E = engine()
        return mk(self.val(kz), E.MIN, E.MAX)

    def get(self, k: Any, d: Any = None) -> Any:
        try:
            return self[k]
        except KeyError:
            return d

    def __len__(self) -> int:
        return len(self.entries)

    def concrete_view(self) -> Optional[Dict[int, Any]]:
        """{word address: value term} when every key is a concrete number (later stores win), else None"""
        out: Dict[int, Any] = {}
        for k, v in self.entries:
            if not z3.is_bv_value(k):
                return None
            out[k.as_long()] = v
        return out


def make_vreader_class() -> type:
    from flipjump.fjm.fjm_reader import Reader

    class VReader(Reader):
        """the real Reader; only the *container* its code stores into self.memory is replaced by a SymDict"""
        @property
        def memory(self) -> Any:  # type: ignore[override]
            return self.__dict__['_memory']

        @memory.setter
        def memory(self, value: Any) -> None:
            if isinstance(value, dict) and not value:
                value = SymDict()
            self.__dict__['_memory'] = value
    return VReader


# ------------------------------------------------------------------------------------------ installation

class Env:
    """installs the stubs on the module globals of fjm_writer / fjm_reader (no repo edit)."""

    def __init__(self, *, dict_threshold: Optional[int] = 3, lzma_out_lengths: Tuple[int, ...] = ()):
        from flipjump.fjm import fjm_reader, fjm_writer
        self.fs = MemFS()
        self.lzma = FakeLzma(lzma_out_lengths)
        for mod in (fjm_writer, fjm_reader):
            mod.open = self.fs.open            # type: ignore[attr-defined]
            mod.lzma = self.lzma               # type: ignore[attr-defined]
            mod.range = sym_range              # type: ignore[attr-defined]
            mod.hex = sym_hex                  # type: ignore[attr-defined]
            mod.int = from_bytes_int           # type: ignore[attr-defined]
        fjm_writer.pack = sym_pack             # type: ignore[attr-defined]
        fjm_reader.unpack = sym_unpack         # type: ignore[attr-defined]
        if dict_threshold is not None:
            fjm_reader._reserved_dict_threshold = dict_threshold   # type: ignore[attr-defined]
        self.VReader = make_vreader_class()

    @staticmethod
    def uninstall() -> Tuple[Any, Any]:
        """remove every stub: the modules are the real ones again (used before replaying on the real code)"""
        import importlib
        from flipjump.fjm import fjm_reader, fjm_writer, fjm_consts
        for mod in (fjm_writer, fjm_reader):
            for name in ('open', 'range', 'hex', 'int', 'lzma', 'pack', 'unpack'):
                mod.__dict__.pop(name, None)
        importlib.reload(fjm_consts)
        importlib.reload(fjm_writer)
        importlib.reload(fjm_reader)
        return fjm_reader, fjm_writer

    STUBS = [
        'struct.pack/unpack inside fjm_writer/fjm_reader -> pure-python little-endian codec over symbolic bytes; '
        'struct.error when a value is outside its field or the buffer has the wrong length (the real contract)',
        'open() inside fjm_writer/fjm_reader -> in-memory files recording every write call in order',
        'lzma inside fjm_writer/fjm_reader -> compress = tagging, decompress(tagged) = payload, decompress(torn tagged) = '
        'LZMAError, decompress(arbitrary bytes) = LZMAError or arbitrary bytes of a listed length',
        'range() inside fjm_writer/fjm_reader -> lazy range accepting a symbolic bound (one fork per iteration)',
        'hex() -> placeholder text for symbolic ints (message formatting only)',
        'the dict stored in Reader.memory -> SymDict association list (installed by a property on a Reader subclass)',
        'fjm_consts._reserved_dict_threshold patched from 1000 to a small value so the dense and the lazy zero tail both '
        'occur with tiny symbolic sizes (the real 1000 is re-checked concretely)',
    ]
