"""Harness parts shared by the checks that execute the real Python run loops symbolically (C01, C15, C18).

State = a real fjm_reader.Reader object whose `.memory` is a SymMem (dict look-alike over z3 arrays: an
arbitrary presence predicate + an arbitrary word array), `.zeros_boundaries` a short list of symbolic
ranges.  The loops are cut after K ops through the object they already call at the top of every iteration
(the last-ops container), nothing inside them is skipped.

Comparison = product program: after the real loop has run on a path, pyspec (the reference machine, plain
Python) runs on a copy of the same initial symbolic state under the same path condition, and every observable
is proved equal.
"""
from __future__ import annotations

from typing import Any, Dict, List, Optional, Tuple

import z3

from fjv import pyspec
from fjv.pysym import (Engine, SymBool, engine, lift, mk, mkb, sym_hex, sym_int, to_z3, to_z3_bool)


class StopAfterK(BaseException):
    def __init__(self, next_ip: Any):
        self.next_ip = next_ip


class SymMem:
    """dict look-alike: word address -> word.  presence and values are z3 arrays."""

    def __init__(self, w: int, W: int, present: Any, val: Any):
        self.w, self.W = w, W
        self.present, self.val = present, val
        self.range_obligations: List[Any] = []   # values written that must fit in w bits
        self.keys: List[Any] = []                # index terms touched (for model read-out)

    def _k(self, k: Any) -> Any:
        e = lift(k)[0]
        self.keys.append(e)
        return e

    def __contains__(self, k: Any) -> bool:
        return engine().branch(z3.Select(self.present, self._k(k)))

    def __getitem__(self, k: Any) -> Any:
        kk = self._k(k)
        if not engine().branch(z3.Select(self.present, kk)):
            raise KeyError(k)
        return mk(z3.ZeroExt(self.W - self.w, z3.Select(self.val, kk)), 0, (1 << self.w) - 1)

    def get(self, k: Any, default: Any = None) -> Any:
        try:
            return self[k]
        except KeyError:
            return default

    def __setitem__(self, k: Any, v: Any) -> None:
        kk = self._k(k)
        e, lo, hi = lift(v)
        if lo < 0 or hi >= (1 << self.w):
            self.range_obligations.append(z3.And(e >= 0, e < (1 << self.w)))
        self.present = z3.Store(self.present, kk, z3.BoolVal(True))
        self.val = z3.Store(self.val, kk, z3.Extract(self.w - 1, 0, e))

    def alpha(self, k: Any) -> Any:
        """abstract value (BV w) at word address k: stored value, 0 if absent."""
        return z3.If(z3.Select(self.present, k), z3.Select(self.val, k), z3.BitVecVal(0, self.w))


class Ring:
    """stands in for the last-ops deque: records ips, raises on call K+1 (this is how the loops are cut)."""
    maxlen = 0

    def __init__(self, k: int):
        self.k, self.items = k, []

    def append(self, ip: Any) -> None:
        if len(self.items) >= self.k:
            raise StopAfterK(ip)
        self.items.append(ip)


class SymIO:
    """IO device: input bit i is (avail_i, bit_i); end-of-input when not avail. records write_bit calls.
    fault_at = (call index, exception): the device raises at that call instead (C18)."""

    def __init__(self, avail: List[Any], bits: List[Any], eof_exc: type, fault_at: Optional[Tuple[Any, Any]] = None):
        self.avail, self.bits, self.eof_exc = avail, bits, eof_exc
        self.out: List[Any] = []
        self.reads = 0
        self.calls = 0
        self.fault_at = fault_at
        self.faulted = False

    def _tick(self) -> None:
        if self.fault_at is not None:
            k, exc = self.fault_at
            hit = (k == self.calls)
            if hit if isinstance(hit, bool) else bool(hit):
                self.faulted = True
                self.calls += 1
                raise exc
        self.calls += 1

    def write_bit(self, b: Any) -> None:
        self._tick()
        self.out.append(b)

    def read_bit(self) -> Any:
        self._tick()
        i = self.reads
        self.reads += 1
        if i >= len(self.avail):
            raise AssertionError('harness: more reads than modelled input bits')
        if not engine().branch(self.avail[i]):
            raise self.eof_exc('end of input')
        return SymBool(self.bits[i])

    def attach_memory(self, m: Any) -> None:
        pass


class PyState:
    """symbolic initial state for the Python loops."""

    def __init__(self, w: int, W: int, n_zero_ranges: int, n_inputs: int, tag: str = ''):
        from flipjump.fjm.fjm_reader import Reader, GarbageHandling
        self.w, self.W = w, W
        E = engine()
        idx = z3.BitVecSort(W)
        self.M0 = z3.Array(f'M{tag}', idx, z3.BitVecSort(w))
        self.P0 = z3.Array(f'P{tag}', idx, z3.BoolSort())
        self.zb = [(sym_int(f'zs{i}{tag}', 0, 1 << w), sym_int(f'ze{i}{tag}', 0, 1 << w)) for i in range(n_zero_ranges)]
        self.avail = [z3.Bool(f'avail{i}{tag}') for i in range(n_inputs)]
        self.bits = [z3.Bool(f'inbit{i}{tag}') for i in range(n_inputs)]
        for c in self.avail + self.bits:
            E.inputs.setdefault(str(c), c)
        r = Reader.__new__(Reader)
        r.garbage_handling = GarbageHandling.Stop
        r.memory_width = w
        r.memory = SymMem(w, W, self.P0, self.M0)
        r.zeros_boundaries = list(self.zb)
        r.memory_segments = []
        self.reader = r

    def in_zero_range(self, k: Any) -> Any:
        return z3.Or(*[z3.And(to_z3(s) <= k, k < to_z3(e)) for s, e in self.zb]) if self.zb else z3.BoolVal(False)

    def valid0(self, k: Any) -> Any:
        return z3.Or(z3.Select(self.P0, k), self.in_zero_range(k))


class SpecMem:
    """pyspec's memory interface over the same initial symbolic image (its own copy)."""

    def __init__(self, st: PyState):
        self.st = st
        self.present, self.val = st.P0, st.M0
        self.keys: List[Any] = []

    def valid(self, wa: Any) -> Any:
        k = lift(wa)[0]
        self.keys.append(k)
        return mkb(self.st.valid0(k))

    def load(self, wa: Any) -> Any:
        k = lift(wa)[0]
        v = z3.If(z3.Select(self.present, k), z3.Select(self.val, k), z3.BitVecVal(0, self.st.w))
        return mk(z3.ZeroExt(self.st.W - self.st.w, v), 0, (1 << self.st.w) - 1)

    def store(self, wa: Any, v: Any) -> None:
        k = lift(wa)[0]
        self.present = z3.Store(self.present, k, z3.BoolVal(True))
        self.val = z3.Store(self.val, k, z3.Extract(self.st.w - 1, 0, lift(v)[0]))

    def alpha(self, k: Any) -> Any:
        return z3.If(z3.Select(self.present, k), z3.Select(self.val, k), z3.BitVecVal(0, self.st.w))


class SpecIO:
    def __init__(self, st: PyState):
        self.st, self.pos, self.out, self.reads = st, 0, [], 0

    def read(self) -> Tuple[Any, Any]:
        i = self.pos
        self.reads += 1
        if i >= len(self.st.avail):
            raise AssertionError('harness: more spec reads than modelled input bits')
        self.pos += 1
        return mkb(self.st.avail[i]), mkb(self.st.bits[i])

    def write(self, bit: Any) -> None:
        self.out.append(bit)


def run_spec(st: PyState, K: int) -> Dict[str, Any]:
    """pyspec for at most K ops from ip 0 on a copy of the initial state (forks through the same engine)."""
    mem, io = SpecMem(st), SpecIO(st)
    ip: Any = 0
    ops = 0
    started: List[Any] = []
    status, extra = pyspec.CONTINUE, None
    recs: List[Dict[str, Any]] = []
    while len(started) < K:
        started.append(ip)
        rec: Dict[str, Any] = {'ip': ip}
        status, extra, counted = pyspec.step(st.w, mem, io, ip, rec)
        rec['status'] = status
        recs.append(rec)
        ops += 1 if counted else 0
        if status != pyspec.CONTINUE:
            break
        ip = extra
    return {'status': status, 'fault': extra if status == pyspec.MEMERR else None, 'ip': ip, 'ops': ops, 'out': io.out,
            'reads': io.reads, 'started': started, 'mem': mem, 'recs': recs}


def install_format_stubs(report: Any = None) -> None:
    """hex() needs a concrete int; inside the repo modules it is only used to build messages."""
    from flipjump.fjm import fjm_reader
    fjm_reader.hex = sym_hex  # type: ignore[attr-defined]
    if report is not None:
        report.stub('hex() inside flipjump.fjm.fjm_reader (message formatting only) -> placeholder text for symbolic ints')


def run_loop(engine_name: str, st: PyState, K: int, io: SymIO, breakpoint_handler: Any = None) -> Dict[str, Any]:
    """run the real loop for at most K ops; returns the observables (symbolic leaves)."""
    from flipjump.interpreter import fjm_run
    from flipjump.utils.classes import RunStatistics
    from flipjump.utils.exceptions import FlipJumpRuntimeMemoryException
    stats = RunStatistics(st.w, None)
    ring = Ring(K)
    stats.last_ops_addresses = ring  # type: ignore[assignment]
    res: Dict[str, Any] = {'kind': None, 'status': None, 'fault': None, 'next_ip': None}
    try:
        if engine_name == 'featured':
            t = fjm_run._run_featured(st.reader, io, stats, breakpoint_handler, False)
        else:
            t = fjm_run._run_fast(st.reader, io, stats)
        res['kind'], res['status'] = 'term', int(t.termination_cause)
    except FlipJumpRuntimeMemoryException as e:
        res['kind'], res['status'], res['fault'] = 'memerr', pyspec.MEMERR, e.memory_address
    except StopAfterK as s:
        res['kind'], res['status'], res['next_ip'] = 'stop', pyspec.CONTINUE, s.next_ip
    res.update(ops=stats.op_counter, ips=list(ring.items), out=list(io.out), reads=io.reads, mem=st.reader.memory,
               stats=stats)
    return res


def image_reader(st: PyState, key_terms: List[Any]):  # type: ignore[no-untyped-def]
    """-> function(model) giving the concrete image (for replaying a counterexample on the real code)"""
    def image(m: Any) -> Dict[str, Any]:
        words: Dict[str, int] = {}
        absent: List[int] = []
        for t in key_terms:
            k = m.eval(t, model_completion=True)
            kv = k.as_long()
            if z3.is_true(m.eval(z3.Select(st.P0, k), model_completion=True)):
                words[str(kv)] = m.eval(z3.Select(st.M0, k), model_completion=True).as_long()
            elif kv not in absent:
                absent.append(kv)
        ev = lambda t: m.eval(to_z3(t), model_completion=True).as_long()  # noqa: E731
        return {'w': st.w, 'words': words, 'absent': absent,
                'zero_ranges': [[ev(a), ev(b)] for a, b in st.zb],
                'inputs': [[z3.is_true(m.eval(a, model_completion=True)), z3.is_true(m.eval(b, model_completion=True))]
                           for a, b in zip(st.avail, st.bits)]}
    return image


def same(a: Any, b: Any) -> Any:
    """z3 Bool: the two (int | proxy | None) values are equal"""
    if a is None or b is None:
        return z3.BoolVal(a is None and b is None)
    return to_z3(a) == to_z3(b)


def compare(E: Engine, st: PyState, res: Dict[str, Any], spec: Dict[str, Any], tag: str, with_memory: bool = True) -> bool:
    """obligations: every observable of the real loop equals pyspec's (same path condition)."""
    items: List[Tuple[Any, str]] = []
    add = lambda c, l: items.append((c, f'{tag}: {l}'))  # noqa: E731
    add(z3.BoolVal(res['status'] == spec['status']), 'termination cause')
    if res['status'] == spec['status'] == pyspec.MEMERR:
        add(same(res['fault'], spec['fault']), 'fault address')
    if res['status'] == spec['status'] == pyspec.CONTINUE:
        add(same(res['next_ip'], spec['ip']), 'next ip after K ops')
    add(same(res['ops'], spec['ops']), 'op counter')
    add(z3.BoolVal(len(res['out']) == len(spec['out'])), 'number of output bits')
    for i, (a, b) in enumerate(zip(res['out'], spec['out'])):
        add(to_z3_bool(a) == to_z3_bool(b), f'output bit {i}')
    add(z3.BoolVal(res['reads'] == spec['reads']), 'number of read_bit calls')
    add(z3.BoolVal(len(res['ips']) == len(spec['started'])), 'number of ops started (last-ops list length)')
    for i, (a, b) in enumerate(zip(res['ips'], spec['started'])):
        add(same(a, b), f'last-ops address {i}')
    mem: SymMem = res['mem']
    smem: SpecMem = spec['mem']
    for i, ob in enumerate(mem.range_obligations):
        add(ob, f'stored word {i} fits the memory width')
    k = z3.BitVec('kq', st.W)
    in_space = z3.And(k >= 0, k < (1 << st.w))
    valid_eng = z3.Or(z3.Select(mem.present, k), st.in_zero_range(k))
    valid_spec = z3.Or(z3.Select(smem.present, k), st.in_zero_range(k))
    if with_memory:
        add(z3.Implies(in_space, valid_eng == valid_spec), 'set of valid words')
        add(z3.Implies(z3.And(in_space, valid_eng), mem.alpha(k) == smem.alpha(k)), 'final memory')
    return E.prove_all(items, detail=image_reader(st, list(mem.keys) + list(smem.keys)))
