"""The repo's own small programs (the hand-built ones of tests/unit/test_fast_run.py and a few assembled ones),
used to validate fjspec and the executors on concrete runs ("push the repo's own test inputs through the encoding")."""
from __future__ import annotations

import shutil
from pathlib import Path
from typing import Any, Dict, List, Tuple

from fjv import common, pyspec

MINIMAL_STARTUP = """
def startup @ code_start > IO {
    ;code_start
  IO:
    ;0
  code_start:
}
"""


def build_programs(d: Path) -> List[Tuple[str, Path, bytes]]:
    """-> [(name, fjm path, input bytes)]"""
    from flipjump import assemble
    from flipjump.fjm.fjm_consts import FJMVersion
    from flipjump.fjm.fjm_writer import Writer
    from flipjump.utils.functions import get_stl_paths
    progs: List[Tuple[str, Path, bytes]] = []

    def asm(name: str, src: str, w: int = 64, stl: bool = False, inp: bytes = b'', version: int = 1) -> None:
        f = d / f'{name}.fj'
        f.write_text(src)
        out = d / f'{name}.fjm'
        assemble([f], out, memory_width=w, use_stl=stl, fjm_version=FJMVersion(version), print_time=False,
                 warning_as_errors=True)
        progs.append((name, out, inp))

    repo = common.REPO
    asm('hello', (repo / 'programs/print_tests/hello_no-stl.fj').read_text())
    asm('infinite_loop', MINIMAL_STARTUP + '\nstartup\nloop:\n;loop\n')
    asm('null_ip', MINIMAL_STARTUP + '\nstartup\n;0\n')
    asm('zeros_boundary', MINIMAL_STARTUP + '\nstartup\n(1 << 14) + 7;\nloop: ;loop\n\nsegment (1 << 14)\nreserve (1 << 14)\n', w=16)
    asm('memory_error', MINIMAL_STARTUP + '\nstartup\n;0x4000\n', w=16)
    p = d / 'unaligned.fjm'
    wr = Writer(p, 16, FJMVersion.NormalVersion)
    wr.add_simple_segment_with_data(0, [112, 72, 0, 0, 0x7000, 0x4800, 0, 0])
    wr.write_to_file()
    progs.append(('unaligned', p, b''))
    asm('cat', (repo / 'programs/print_tests/cat.fj').read_text(), stl=True, inp=b'fj!', version=3)
    asm('hello_w32', (repo / 'programs/print_tests/hello_no-stl.fj').read_text(), w=32, version=2)
    # w=8: output a 1 bit then jump to an unaligned op that self-loops
    p = d / 'w8.fjm'
    wr = Writer(p, 8, FJMVersion.NormalVersion)
    wr.add_simple_segment_with_data(0, [17, 32, 0, 0, 0, 32, 0, 0])
    wr.write_to_file()
    progs.append(('w8_out', p, b''))
    return progs


def featured_trace(path: Path, inp: bytes, max_ops: int) -> Dict[str, Any]:
    from flipjump.fjm.fjm_reader import Reader
    from flipjump.interpreter import fjm_run
    from flipjump.interpreter.io_devices.FixedIO import FixedIO
    from flipjump.utils.classes import RunStatistics
    from flipjump.utils.exceptions import FlipJumpRuntimeMemoryException

    class Stop(BaseException):
        pass

    trace: List[Tuple[int, int, int]] = []

    class Stats(RunStatistics):
        def register_op_address(self, ip: int) -> None:
            if self.op_counter >= max_ops:
                raise Stop()

        def register_op(self, ip: int, flip_address: int, jump_address: int) -> None:
            super().register_op(ip, flip_address, jump_address)
            trace.append((ip, flip_address, jump_address))

    mem = Reader(path)
    io = FixedIO(inp)
    st = Stats(mem.memory_width, None)
    res: Dict[str, Any] = {}
    try:
        t = fjm_run._run_featured(mem, io, st, None, False)
        res['status'] = int(t.termination_cause)
    except FlipJumpRuntimeMemoryException as e:
        res['status'], res['fault'] = pyspec.MEMERR, e.memory_address
    except Stop:
        res['status'] = pyspec.CONTINUE
    bits: List[bool] = []
    for i, byte in enumerate(io._output):
        bits += [bool((byte >> k) & 1) for k in range(8)]
    bits += [bool((io.current_output_byte >> k) & 1) for k in range(io.bits_to_write_in_output_byte)]
    res.update(ops=st.op_counter, trace=trace, out=bits, reader=mem)
    return res


def validate_spec(report: Any, max_ops: int = 400) -> int:
    """pyspec (on plain ints) must reproduce the real featured loop's per-op trace."""
    from flipjump.fjm.fjm_reader import Reader
    d = common.scratch_dir('progs')
    n = 0
    try:
        for name, path, inp in build_programs(d):
            real = featured_trace(path, inp, max_ops)
            rd = Reader(path)
            bits = [bool((b >> k) & 1) for b in inp for k in range(8)]
            spec = pyspec.run_concrete(rd.memory_width, rd.memory, rd.zeros_boundaries, bits, max_ops)
            same = (spec['trace'] == real['trace'] and spec['ops'] == real['ops'] and spec['out'] == real['out']
                    and spec['status'] == real['status'] and spec.get('fault') == real.get('fault'))
            if not same:
                raise common.Inconclusive(f'pyspec disagrees with the featured loop on the repo program {name!r}: '
                                          f"spec {spec['status'], spec['ops'], spec.get('fault')} vs real "
                                          f"{real['status'], real['ops'], real.get('fault')}")
            n += 1
            report.sample({'pyspec_validation': name, 'ops_compared': real['ops'], 'status': real['status']})
    finally:
        shutil.rmtree(d, ignore_errors=True)
    return n
