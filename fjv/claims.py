"""What each check claims (source of MANIFEST.json, see gen_manifest.py)."""

PENDING_REASON = 'check not built yet in this revision (see DESIGN.md build order); not claimed'

NOT_APPLICABLE = {
    'C13': 'history dependence lives in shared mutable CPython object graphs and process globals; the symbolic part is '
           'three booleans, so a solver decides nothing that two concrete runs would not; no sound bounded SMT encoding '
           'within reach (DESIGN.md 2/C13)',
}

_T_PYSYM = ('symbolic execution of the real Python bytecode on z3 bit-vector proxies (pysym), z3 unsat verdict per path, '
            'counterexamples replayed on the real code')

CLAIMED = {
    'C01': dict(
        text='Bounded symbolic verification. Python engines: the real _run_featured/_run_fast are executed by pysym on a '
             'fully symbolic state (arbitrary memory words, arbitrary validity predicate, symbolic lazy-zero ranges, symbolic '
             'input bits / end of input) for K ops and every observable (outputs, read calls, cause, fault address, op count, '
             'last-ops addresses, final memory, set of valid words) is proved equal to the 40-line reference machine pyspec on '
             'every path; one op at an arbitrary ip from an arbitrary state covers runs of any length by induction over ops.',
        note='Trusted: pyspec (validated against the featured loop on the repo programs), z3, the pysym proxies (validated '
             'differentially against int), the single-bit rewrite lemmas (proved per width on every run). Bounds: K<=2 (3 at '
             'w=8 in thorough), <=2 lazy-zero ranges; GarbageHandling.Stop only.',
        technique=_T_PYSYM + '; product-program comparison with a reference step', ref='DESIGN.md 2/C01'),
    'C06': dict(
        text='Bounded symbolic verification: the real Writer (add_data/add_segment/write_to_file) runs on symbolic segment '
             'starts/lengths (any 64-bit value) and symbolic data words, the bytes it wrote are read back by the real Reader, and at '
             'a fresh symbolic word address the loaded image is proved equal to the abstract image of the call sequence (data, then '
             'zeros, invalid outside) - for every width, every format version and every listed call-sequence shape (shared / '
             'touching / disjoint data ranges, empty data, trailing data). Inputs the format cannot hold (out-of-range words, '
             '>64-bit fields, odd or out-of-pool data ranges) must be refused with FlipJumpWriteFjmException.',
        note='LZMA is stubbed by its round-trip contract; struct/open/range stubs listed in evidence; dense/lazy zero-tail threshold '
             'patched to 3 for the symbolic runs and re-checked concretely at 998..1002. Bounds: <=3 segments, <=8 data words.',
        technique=_T_PYSYM, ref='DESIGN.md 2/C06'),
    'C10': dict(
        text='Bounded symbolic verification of the real Reader: (a) every file of length <= header + 2 segment records + 8 data '
             'bytes whose bytes after the first 12 are all symbolic ends in a Reader or FlipJumpReadFjmException on every path; '
             '(b) every strict prefix of writer-produced files (symbolic contents) is rejected or decodes to the same image; '
             '(c) an arbitrary symbolic segment table is accepted only if the writer could have produced it.',
        note='LZMA decoder stubbed (fails, or yields arbitrary bytes of listed lengths); prefix-of-stream => LZMAError is '
             're-validated on real streams each run. Quick enumerates the file lengths around every field/record/word boundary, '
             'thorough every length.',
        technique=_T_PYSYM, ref='DESIGN.md 2/C10'),
    'C17': dict(
        text='Bounded symbolic verification of the real FixedIO / StandardIO / KeyboardIO / BrokenIO: every written bit, input '
             'byte, event tic, direction and keycode is symbolic; counts (0..17 written bits, 0..3 input bytes, 0..3 events, up to '
             '37 reads) are enumerated completely; outputs are proved equal to LSB-first packing, reads to the bytes\' bits with '
             'end-of-input exactly after the last, the keyboard stream to the documented polling protocol (stable tic order).',
        note='stdin/stdout of StandardIO stubbed (one arbitrary byte per character); script-file parsing and the pygame window '
             'are outside the claim.',
        technique=_T_PYSYM, ref='DESIGN.md 2/C17'),
    'C12': dict(
        text='Bounded symbolic verification: every ordered pair of the 19 binary operators, unary - ~ # and ?: on either side of '
             'every binary operator, nested ternaries and parentheses are parsed by the real LALR parser and carried through the real '
             'pipeline; for every leaf value in [-2,3] and every partition of the leaves into parser constant / macro parameter / '
             'label-tainted the word that reaches the image equals the reference grouping under reference integer semantics (errors '
             'coincide). Each entry of op_string_to_function is proved equal to an independent z3 semantics on [-512,512].',
        note='The precedence table is a regression reference frozen in fjv/checks/c12.py (the repo documents none). Literals are '
             'validated on a concrete list through the real lexer. Leaf range keeps ** and << inside the 64-bit encoding.',
        technique=_T_PYSYM, ref='DESIGN.md 2/C12'),
    'C14': dict(
        text='Bounded symbolic verification: the whole real assembler.assemble() runs on 16 statement skeletons x every operator, '
             'with symbolic operands of unconstrained sign, so that each operator is evaluated at each stage (parse-time folding, '
             'constant definition, macro argument, rep count and iterator, pad/reserve/segment operands, label resolution, wflip '
             'value/address, op words). Every path must end in success or a FlipJumpException that is not the generic funnel, and '
             'a failed assembly must leave no output file.',
        note='Text-level error classes (lexing/syntax errors, byte mutations) and never-hangs are outside: the regex lexer and the '
             'LALR tables cannot be driven by symbolic strings. Operand magnitudes are bounded per operator (see evidence).',
        technique=_T_PYSYM, ref='DESIGN.md 2/C14'),
    'C02': dict(
        text='Bounded symbolic verification: the whole real pipeline (parser, preprocessor, labels_resolve, Writer, Reader on the '
             'written bytes) runs on every statement sequence of length <= 3 (4 in thorough) over {flip;jump, flip;, wflip a,v, wflip a,v,r, '
             'pad, reserve, segment} plus curated longer ones; op words stay symbolic to the final comparison, layout operands (pad '
             'alignment, reserve size, segment address, wflip value bits) are enumerated by the solver. Every word, label, reserved '
             'range and segment start is compared with an independent reference layouter, and every wflip chain is walked in the '
             'produced image (flips exactly the set bits once each, returns, auxiliary ops only in pad holes / wflip areas).',
        note='Trusted: the reference layouter in fjv/checks/c02.py; stubs of fjv/fjmio.py. wflip targets/returns are two fixed far '
             'addresses; width/version pairs (16,1) (64,3) in quick, 5 pairs in thorough.',
        technique=_T_PYSYM, ref='DESIGN.md 2/C02'),
    'C15': dict(
        text='Bounded symbolic verification: the real _run_featured with a real BreakpointHandler runs from the fully symbolic '
             'machine state of C01 with a symbolic starting op count, a symbolic pending next-break and an arbitrary breakpoint '
             'predicate, for 16 command scripts; the pauses (address, op count, before any IO or memory effect of the op) and the '
             'run\'s observables are proved equal to pyspec + a 15-line model of the debugger commands (step = 1 op, skip N = N ops, '
             'continue, continue-all, quit = keyboard interrupt). Read commands: the value shown equals the addressed word / the '
             'bit, hex or byte vector decoded at dbit with stride 2w, and memory is unchanged.',
        note='K=1 from ip 0 and K=2 with the C01 trampoline; label pretty-printing stubbed; terminal IO scripted.',
        technique=_T_PYSYM + '; product-program comparison', ref='DESIGN.md 2/C15'),
}
