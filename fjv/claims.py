"""What each check claims (source of MANIFEST.json, see gen_manifest.py)."""

PENDING_REASON = 'check not built yet in this revision (see DESIGN.md build order); not claimed'

NOT_APPLICABLE = {
    'C13': 'history dependence lives in shared mutable CPython object graphs and process globals; the symbolic part is '
           'three booleans, so a solver decides nothing that two concrete runs would not; no sound bounded SMT encoding '
           'within reach (DESIGN.md 2/C13)',
}

_T_PYSYM = ('symbolic execution of the real Python bytecode on z3 bit-vector proxies (pysym), z3 unsat verdict per path, '
            'counterexamples replayed on the real code')

CLAIMED = {
    'C01': dict(
        text='Bounded symbolic verification. Python engines: the real _run_featured/_run_fast are executed by pysym on a '
             'fully symbolic state (arbitrary memory words, arbitrary validity predicate, symbolic lazy-zero ranges, symbolic '
             'input bits / end of input) for K ops and every observable (outputs, read calls, cause, fault address, op count, '
             'last-ops addresses, final memory, set of valid words) is proved equal to the 40-line reference machine pyspec on '
             'every path; one op at an arbitrary ip from an arbitrary state covers runs of any length by induction over ops.',
        note='Trusted: pyspec (validated against the featured loop on the repo programs), z3, the pysym proxies (validated '
             'differentially against int), the single-bit rewrite lemmas (proved per width on every run). Bounds: K<=2 (3 at '
             'w=8 in thorough), <=2 lazy-zero ranges; GarbageHandling.Stop only.',
        technique=_T_PYSYM + '; product-program comparison with a reference step', ref='DESIGN.md 2/C01'),
}
