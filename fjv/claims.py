"""What each check claims (source of MANIFEST.json, see gen_manifest.py)."""

PENDING_REASON = 'check not built yet in this revision (see DESIGN.md build order); not claimed'

NOT_APPLICABLE = {
    'C13': 'history dependence lives in shared mutable CPython object graphs and process globals; the symbolic part is '
           'three booleans, so a solver decides nothing that two concrete runs would not; no sound bounded SMT encoding '
           'within reach (DESIGN.md 2/C13)',
}

_T_LLSX = ('symbolic execution of the LLVM IR that clang-14 produces from the current _fjcore.c (llsx interpreter over z3 bit-vectors, '
           'one loop iteration from a havocked loop-header state), z3 unsat verdict per path, counterexamples replayed on a fresh native build')
_T_FJSX = ('the real assembler builds the current stl into an image; a symbolic FlipJump machine (fjsx, z3 bit-vectors, fork/join on '
           'symbolic jump words) executes the macro on symbolic operand values; z3 unsat verdict per final state; counterexamples '
           'replayed on the real interpreter')
_T_PYSYM = ('symbolic execution of the real Python bytecode on z3 bit-vector proxies (pysym), z3 unsat verdict per path, '
            'counterexamples replayed on the real code')

CLAIMED = {
    'C01': dict(
        text='Bounded symbolic verification. Python engines: the real _run_featured/_run_fast are executed by pysym on a '
             'fully symbolic state (arbitrary memory words, arbitrary validity predicate, symbolic lazy-zero ranges, symbolic '
             'input bits / end of input) for K ops and every observable (outputs, read calls, cause, fault address, op count, '
             'last-ops addresses, final memory, set of valid words) is proved equal to the 40-line reference machine pyspec on '
             'every path; one op at an arbitrary ip from an arbitrary state covers runs of any length by induction over ops.',
        note='Trusted: pyspec (validated against the featured loop on the repo programs), z3, the pysym proxies (validated '
             'differentially against int), the single-bit rewrite lemmas (proved per width on every run). Bounds: K<=2 (3 at '
             'w=8 in thorough), <=2 lazy-zero ranges; GarbageHandling.Stop only. Native flat loop: quick runs ip bit offsets {0, 1, w/2, w-1} at '
             'w = 8, 16, 64 and the aligned op at w = 32 (unaligned w=32 ops: thorough tier).',
        technique=_T_PYSYM + '; product-program comparison with a reference step', ref='DESIGN.md 2/C01'),
    'C06': dict(
        text='Bounded symbolic verification: the real Writer (add_data/add_segment/write_to_file) runs on symbolic segment '
             'starts/lengths (any 64-bit value) and symbolic data words, the bytes it wrote are read back by the real Reader, and at '
             'a fresh symbolic word address the loaded image is proved equal to the abstract image of the call sequence (data, then '
             'zeros, invalid outside) - for every width, every format version and every listed call-sequence shape (shared / '
             'touching / disjoint data ranges, empty data, trailing data). Inputs the format cannot hold (out-of-range words, '
             '>64-bit fields, odd or out-of-pool data ranges) must be refused with FlipJumpWriteFjmException.',
        note='LZMA is stubbed by its round-trip contract (the contract itself is validated per preset on the real Writer/Reader with an 11 MiB buffer); struct/open/range stubs listed in evidence; lazy zero tails are also read through the Reader\'s accessor; dense/lazy zero-tail threshold '
             'patched to 3 for the symbolic runs and re-checked concretely at 998..1002. Bounds: <=4 segments, <=8 data words; three-call histories with a zero-data segment between sharing ranges.',
        technique=_T_PYSYM, ref='DESIGN.md 2/C06'),
    'C10': dict(
        text='Bounded symbolic verification of the real Reader: (a) every file of length <= header + 2 segment records + 8 data '
             'bytes whose bytes after the first 12 are all symbolic ends in a Reader or FlipJumpReadFjmException on every path; '
             '(b) every strict prefix of writer-produced files (symbolic contents) is rejected or decodes to the same image; '
             '(c) an arbitrary symbolic segment table is accepted only if the writer could have produced it.',
        note='LZMA decoder stubbed (fails, or yields arbitrary bytes of listed lengths); prefix-of-stream => LZMAError is '
             're-validated on real streams each run. Quick enumerates the file lengths around every field/record/word boundary, '
             'thorough every length.',
        technique=_T_PYSYM, ref='DESIGN.md 2/C10'),
    'C17': dict(
        text='Bounded symbolic verification of the real FixedIO / StandardIO / KeyboardIO / BrokenIO: every written bit, input '
             'byte, event tic, direction and keycode is symbolic; counts (0..17 written bits, 0..3 input bytes, 0..3 events, up to '
             '37 reads) are enumerated completely; outputs are proved equal to LSB-first packing, reads to the bytes\' bits with '
             'end-of-input exactly after the last, the keyboard stream to the documented polling protocol (stable tic order).',
        note='stdin/stdout of StandardIO stubbed (one arbitrary byte per character); script-file parsing and the pygame window '
             'are outside the claim.',
        technique=_T_PYSYM, ref='DESIGN.md 2/C17'),
    'C12': dict(
        text='Bounded symbolic verification: every ordered pair of the 19 binary operators, unary - ~ # and ?: on either side of '
             'every binary operator, nested ternaries and parentheses are parsed by the real LALR parser and carried through the real '
             'pipeline; for every leaf value in [-2,3] and every partition of the leaves into parser constant / macro parameter / '
             'label-tainted the word that reaches the image equals the reference grouping under reference integer semantics (errors '
             'coincide). Each entry of op_string_to_function is proved equal to an independent z3 semantics on [-512,512].',
        note='The precedence table is a regression reference frozen in fjv/checks/c12.py (the repo documents none). Literals are '
             'validated on a concrete list through the real lexer. Leaf range keeps ** and << inside the 64-bit encoding.',
        technique=_T_PYSYM, ref='DESIGN.md 2/C12'),
    'C14': dict(
        text='Bounded symbolic verification: the whole real assembler.assemble() runs on 16 statement skeletons x every operator, '
             'with symbolic operands of unconstrained sign, so that each operator is evaluated at each stage (parse-time folding, '
             'constant definition, macro argument, rep count and iterator, pad/reserve/segment operands, label resolution, wflip '
             'value/address, op words). Every path must end in success or a FlipJumpException that is not the generic funnel, and '
             'a failed assembly must leave no output file.',
        note='Text-level error classes (lexing/syntax errors, byte mutations) and never-hangs are outside: the regex lexer and the '
             'LALR tables cannot be driven by symbolic strings. Operand magnitudes are bounded per operator (see evidence). Macro '
             'recursion depth is a nesting structure, not a solver quantity: four recursion shapes (call, through rep, call/rep '
             'alternation, a valid 600-deep rep recursion) are validated concretely at the default depth and reported as validation runs.',
        technique=_T_PYSYM, ref='DESIGN.md 2/C14'),
    'C02': dict(
        text='Bounded symbolic verification: the whole real pipeline (parser, preprocessor, labels_resolve, Writer, Reader on the '
             'written bytes) runs on every statement sequence of length <= 3 (4 in thorough) over {flip;jump, flip;, wflip a,v, wflip a,v,r, '
             'pad, reserve, segment} plus curated longer ones; op words stay symbolic to the final comparison, layout operands (pad '
             'alignment, reserve size, segment address, wflip value bits) are enumerated by the solver. Every word, label, reserved '
             'range and segment start is compared with an independent reference layouter, and every wflip chain is walked in the '
             'produced image (flips exactly the set bits once each, returns, auxiliary ops only in pad holes / wflip areas).',
        note='Trusted: the reference layouter in fjv/checks/c02.py; stubs of fjv/fjmio.py. wflip targets/returns are two fixed far '
             'addresses; width/version pairs (16,1) (64,3) in quick, 5 pairs in thorough.',
        technique=_T_PYSYM, ref='DESIGN.md 2/C02'),
    'C15': dict(
        text='Bounded symbolic verification: the real _run_featured with a real BreakpointHandler runs from the fully symbolic '
             'machine state of C01 with a symbolic starting op count, a symbolic pending next-break and an arbitrary breakpoint '
             'predicate, for 16 command scripts; the pauses (address, op count, before any IO or memory effect of the op) and the '
             'run\'s observables are proved equal to pyspec + a 15-line model of the debugger commands (step = 1 op, skip N = N ops, '
             'continue, continue-all, quit = keyboard interrupt). Read commands: the value shown equals the addressed word / the '
             'bit, hex or byte vector decoded at dbit with stride 2w, and memory is unchanged.',
        note='K=1 from ip 0 and K=2 with the C01 trampoline; label pretty-printing stubbed; terminal IO scripted.',
        technique=_T_PYSYM + '; product-program comparison', ref='DESIGN.md 2/C15'),
    'C03': dict(
        text='Bounded symbolic verification: five macro-program shapes (nesting depth 2 and 3 with rep inside rep, namespaces with '
             'relative names and arity overloading, an extern label and swapped parameters, reps whose arguments do not mention the iterator) are written with EVERY assignment of a 4-5 '
             'name pool to their parameters, local labels, rep iterators and global labels that the language allows; each text and '
             'its binding-level inlining (locals renamed apart, reps unrolled) run through the real assembler with all numbers shared '
             'symbolic constants and symbolic rep counts (0 included); the two images are proved equal word by word, and equal '
             'again when the source is split over two files at a top-level statement.',
        note='Identifier spellings and shapes are enumerated (a lexer/LALR parser cannot be driven by symbolic strings); the solver '
             'decides word equality for all constants and rep counts. Trusted: the 40-line binding-level inliner. Quick strides the two '
             'largest shapes (every 8th / 4th spelling), thorough is exhaustive over the pool.',
        technique=_T_PYSYM + '; two-program equivalence (macro text vs inlined text)', ref='DESIGN.md 2/C03'),
    'C04': dict(
        text='Bounded symbolic verification of 36 hex-namespace macros (logic, shifts, add/sub/inc/dec/neg, constants, comparisons, '
             'conditional jumps, min/max, mov/swap/zero): for every value of every operand (n <= 2-4 hex digits) the final variables, the '
             'exit taken and the frame are proved equal to the documented function, and the same call site executed a second time from '
             'the state the first run left (shared tables, carry flags) with fresh operands is proved correct again.',
        note='mul/div families and n above the bound are outside; w=64 (32 in thorough).',
        technique=_T_FJSX, ref='DESIGN.md 2/C04'),
    'C05': dict(
        text='Bounded symbolic verification of 26 bit-namespace macros (logic, shifts/rotates, inc/dec/neg/add/sub, comparisons, conditional '
             'jumps, mov/swap/zero/one) at w in {16, 64} (+32 in thorough), n <= 4 (8), with the re-entry check of C04.',
        note='bit.mul/div families outside.', technique=_T_FJSX, ref='DESIGN.md 2/C05'),
    'C07': dict(
        text='Bounded symbolic verification, native engine: one op of every C run-loop clone (run_flat_loop, run_generic_loop with and '
             'without the last-ops ring, run_measured_loop) in every storage mode (flat, hybrid with a symbolic flat window, paged with '
             'the page-cache contract model) is proved equal to the same reference step pyspec that C01 proves the Python engines equal '
             'to - so all engines and storage modes agree op by op on outputs, reads, cause, fault address, op count, last-ops ring and '
             'memory. The representation invariant those harnesses assume is an obligation on the code that builds the storage: '
             'mem_decide_storage (symbolic unsorted segments, symbolic window limit, a real page table with loaded pages) is proved to '
             'produce flat_count / flat_covers_all / flat[k] == (k in a segment ? the loaded word : the fill constant) for every k, '
             'Memory_add_segment to grow the valid set by exactly the given range (or refuse an overflowing one) with sound page '
             'fast-ranges, Memory_set_words to store exactly start+i <- v_i & mask or refuse before any store.',
        note='Unaligned ops at w=64 in hybrid/paged storage: solver does not finish (outside). The page table/cache is modelled by its '
             'contract (mem_get_page stub) with the real page_compute_validity / page_cache_fill IR. Storage decision: window limit '
             '1..8 words via the flat_max_words knob (the fill loop is unrolled), <= 3 segments, <= 2 allocated pages.',
        technique=_T_LLSX, ref='DESIGN.md 2/C07'),
    'C08': dict(
        text='Bounded symbolic verification of 31 pointer macros and mixed hex/byte sequences (read/write/xor hex and byte through a pointer, *_and_inc, vector forms, '
             'ptr_flip_dbit, ptr_wflip_2nd_word, nth read/write with negative indices, ptr_jump, pointer arithmetic on arbitrary pointer values) '
             'over a 3-cell buffer with symbolic contents - for every target cell and, through the re-entry check, every ordered pair of target '
             'cells - and of 10 stack / call sequences (LIFO of hexes, bytes and vectors with sp restored, call over a used cell, call with '
             'parameters, call/return nested three deep with data pushes, nested fcall/fret) each executed twice.',
        note='The pointer is concrete per case (3 cells x 3 cells), every stored value symbolic. A run that leaves the documented control flow '
             '(jump into garbage) is replayed concretely on the real interpreter. bit-namespace pointers outside.',
        technique=_T_FJSX, ref='DESIGN.md 2/C08'),
    'C09': dict(
        text='Bounded symbolic verification of 37 IO macros: raw bit/byte output and input, ASCII hex digits in and out, casts, unsigned and '
             'signed hex numerals without leading zeros (prefix, case), unsigned and signed DECIMAL printing (every value of 3-9 bits / 1-2 '
             'hex digits; one alternative per digit count), decimal input with sign, stop byte and error branch over every input of k <= 3 '
             '(4) bytes. Output bits are proved equal to the documented byte string, input results to the documented parse.',
        note='hex/strings.fj helpers and bit.print_str outside. Three documentation defects found and fixed (bit.print_as_digit, bit.input n).',
        technique=_T_FJSX + '; the IO op is part of the symbolic machine (symbolic input bits, recorded output bits)', ref='DESIGN.md 2/C09'),
    'C11': dict(
        text='Bounded symbolic verification, native engine: the one-op harness of C01/C07 with every allocation allowed to fail (malloc/calloc/'
             'realloc return NULL, page allocation fails): every memory access of the IR stays inside a live object (bounds, use after free, '
             'double free are violations of the interpreter itself), reference counts balance, and a failed allocation ends the run with '
             'MemoryError and no effect of the unfinished op. The entry points that build the storage carry the same obligations with '
             'arbitrary arguments: Memory_init on a fresh and on a live object (consistent object after a refused re-init: no NULL table '
             'with a non-zero count, no dangling cached page), Memory_add_segment (any 64-bit start/length, table growth with a failing '
             'realloc), Memory_set_words (any start, failing items, flat / hybrid / paged), mem_decide_storage (symbolic segments and '
             'window, memset / memcpy ranges inside the flat block, failing malloc).',
        note='Heap objects are modelled per allocation; the flat array and pages are symbolic-length objects. Memory_dealloc and the '
             'Memory_run prologue are outside. A shift by >= width is LLVM poison (arbitrary value), not an immediate violation.',
        technique=_T_LLSX, ref='DESIGN.md 2/C11'),
    'C16': dict(
        text='Bounded symbolic verification: (a) the label table of the C02 programs (real pipeline, symbolic layout operands): every '
             'label equals the address of the statement it precedes and pins that address into the image; (b) the real get_breakpoints / '
             'get_breakpoint_handler on a label table with symbolic addresses (possibly equal, possibly 0): the breakpoint addresses are '
             'exactly the addresses of the exactly-named / substring-matching labels plus the given addresses; macro-local label names of '
             'distinct expansions are distinct in the C03 programs.',
        note='The save/load round trip (lzma + json, C-level) is validated on concrete tables, not solver-decided.',
        technique=_T_PYSYM, ref='DESIGN.md 2/C16'),
    'C18': dict(
        text='Bounded symbolic verification: an IO device that fails at its k-th call (k symbolic; library IO error, end-of-input type, foreign '
             'exception, KeyboardInterrupt) under the real fjm_run.run() of both Python loops, and the native loops with PyErr_CheckSignals / '
             'device callbacks failing at arbitrary points: outcome class, op count, outputs so far, last-ops list and memory at the stop equal '
             'pyspec stopped by the same fault. Between the two, the real fjm_run.run() -> _run_native with the C core stubbed by its contract '
             '(leaves a symbolic op count and last-ops ring, raises KeyboardInterrupt / a library IO error / a foreign exception): outcome '
             'class, op count and last-ops list in the statistics equal the ops completed.',
        note='Native: signals are polled every 2^k ops (havocked counter). The core stub\'s contract is validated on every run against a '
             'fresh build of the real core (native vs python fast loop on one faulting program; not solver-decided).', technique=_T_PYSYM + '; ' + _T_LLSX, ref='DESIGN.md 2/C18'),
    'C19': dict(
        text='Bounded symbolic verification: (a) the real ReaderDeviceMemory over the symbolic machine state of C01: device read / in-segment '
             'device write, one op of the real Python loop, device read - everything the device and the op see equals pyspec over the reference '
             'device semantics; packed-byte helpers; (b) native Memory_get_word / Memory_set_word in flat, hybrid (symbolic flat window, stale page '
             'copies below it) and paged storage against the program\'s own accessor mem_read_word; (c) the real InMemoryScreen on every command '
             'stream of the listed shapes with symbolic bytes: palette, pixels, presented frames equal the documented layout; malformed streams '
             'end in IODeviceException.',
        note='One device write per scenario; screens up to 2x2. Whole-program frame equality follows per op from (a)+(b)+C01/C07 and is not run '
             'end-to-end.', technique=_T_PYSYM + '; ' + _T_LLSX, ref='DESIGN.md 2/C19'),
    'C20': dict(
        text='Bounded symbolic verification of the real option plumbing (flipjump_cli get_version / assemble / run / get_files_paths / '
             'execute_assemble_run and flipjump_quickstart assemble / run / debug / assemble_and_run / assemble_and_debug) with symbolic option '
             'values and the two cores (assembler.assemble, fjm_run.run) replaced by recorders: the recorded core calls of the one-step CLI flow, '
             'the two-step CLI flow and the API are proved argument-for-argument identical, and the defaults equal the documented ones.',
        note='Byte identity of the produced files then rests on the core being a function of those arguments (C13, not claimed).',
        technique=_T_PYSYM, ref='DESIGN.md 2/C20'),
}
