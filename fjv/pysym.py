"""pysym - symbolic execution of the repo's real Python functions on z3-backed proxy integers.

SymInt/SymBool stand in for Python ints/bools (signed bit-vectors of a harness-chosen width W with
conservative interval tracking: a result that might not fit W aborts the run as inconclusive, it never
wraps silently).  `bool(SymBool)` forks: the function under test is re-executed once per feasible
decision sequence (depth-first, decision-prefix replay).  Obligations are discharged by z3 under the
path condition; every `unknown` makes the whole check inconclusive.
"""
from __future__ import annotations

import os
import time
from typing import Any, Callable, Dict, List, Optional, Tuple

import z3

from fjv.common import Inconclusive


class Abort(BaseException):
    """the current path is infeasible / must be dropped."""


class WidthBound(Inconclusive):
    """a value might not fit the harness's bit-vector width."""


_E: Optional['Engine'] = None


def engine() -> 'Engine':
    assert _E is not None, 'no active pysym engine'
    return _E


def simplify_fix(t: Any, rounds: int = 4) -> Any:
    """z3.simplify to a fixpoint: terms built along different code paths then meet in one normal form far more often
    (a condition already on the path is recognised syntactically instead of by bit-level search)"""
    for _ in range(rounds):
        n = z3.simplify(t)
        if n.eq(t):
            return n
        t = n
    return t


class Engine:
    def __init__(self, W: int, *, timeout_ms: int = 120_000, max_paths: int = 500_000, enum_cap: int = 64,
                 keep_const: bool = False):
        self.W = W
        self.MIN, self.MAX = -(1 << (W - 1)), (1 << (W - 1)) - 1
        self.timeout_ms = timeout_ms
        self.max_paths = max_paths
        self.max_seconds = float(os.environ.get('FJV_MAX_SECONDS', 6 * 3600))     # wall-time bound of one exploration (never a verdict)
        self.enum_cap = enum_cap
        self.keep_const = keep_const
        self.solver = z3.Solver()
        self.solver.set('timeout', timeout_ms)
        self.base: List[Any] = []          # constraints on declared inputs (re-established per path)
        self.decisions: List[Tuple[str, Any]] = []
        self.pos = 0
        self.pending: List[List[Tuple[str, Any]]] = []
        self.pc: List[Any] = []
        self.model: Optional[z3.ModelRef] = None
        self.fast_ms = 0            # > 0: two-stage solving (see _check)
        self.fallbacks = 0
        self._alt_model: Any = None
        # statistics
        self.paths = 0
        self.aborted = 0
        self.q = {'sat': 0, 'unsat': 0, 'unknown': 0}
        self.solver_s = 0.0
        self.obligations = 0
        self.discharged = 0
        self.failed: List[Dict[str, Any]] = []
        self.witnesses: Dict[str, int] = {}
        self.inputs: Dict[str, Any] = {}    # name -> z3 const (for model read-out)
        self.bit_facts: Dict[Tuple[int, int], Tuple[bool, Any, Any]] = {}   # (id x, id off) -> (bit value, x, off)
        self.bit_rewrites = 0
        self.fmt_terms: List[Any] = []      # terms rendered into message text (see fmt_token)
        self.known: Dict[int, bool] = {}    # ast id -> truth value already established on this path (syntactic)
        self.memo: Dict[Any, Any] = {}      # per-exploration memo of solver-derived choices (keeps re-executions deterministic)

    # ------------------------------------------------------------------ solver plumbing
    def _check(self, *extra: Any) -> str:
        t = time.time()
        self._alt_model = None
        if self.fast_ms and self.fast_ms < self.timeout_ms:
            # two-stage: the incremental solver under a short limit, then a fresh non-incremental QF_ABV solver (bit-blasting
            # tactics) on the whole path condition - much stronger on the few hard bit-vector/array queries
            self.solver.set('timeout', self.fast_ms)
            r = self.solver.check(*extra)
            self.solver.set('timeout', self.timeout_ms)
            if str(r) == 'unknown':
                s2 = z3.SolverFor('QF_AUFBV')
                s2.set('timeout', self.timeout_ms)
                s2.add(*self.solver.assertions())
                s2.add(*extra)
                r = s2.check()
                if str(r) == 'sat':
                    self._alt_model = s2.model()
                self.fallbacks += 1
                if str(r) == 'unknown':
                    # third stage: the incremental solver again, now with the full limit (the two solvers are strong on different queries)
                    r = self.solver.check(*extra)
        else:
            r = self.solver.check(*extra)
        self.solver_s += time.time() - t
        s = str(r)
        self.q[s] = self.q.get(s, 0) + 1
        return s

    def last_model(self) -> Any:
        """the model of the last sat answer (from whichever solver produced it)"""
        return self._alt_model if self._alt_model is not None else self.solver.model()

    def _assume(self, c: Any) -> None:
        self.pc.append(c)
        self.solver.add(c)
        # syntactic index of what is already known on this path (terms are pinned by self.pc, so ids are stable)
        if z3.is_not(c):
            self.known[c.arg(0).get_id()] = False
        else:
            self.known[c.get_id()] = True
            if z3.is_and(c):
                for ch in c.children():
                    if z3.is_not(ch):
                        self.known[ch.arg(0).get_id()] = False
                        self.pc.append(ch)
                    else:
                        self.known[ch.get_id()] = True
                        self.pc.append(ch)

    def _known(self, cond: Any) -> Optional[bool]:
        k = self.known.get(cond.get_id())
        if k is not None:
            return k
        if z3.is_not(cond):
            k = self.known.get(cond.arg(0).get_id())
            if k is not None:
                return not k
        return None

    def _model_says(self, cond: Any) -> Optional[bool]:
        if self.model is None:
            return None
        try:
            v = self.model.eval(cond, model_completion=True)
        except z3.Z3Exception:
            return None
        if z3.is_true(v):
            return True
        if z3.is_false(v):
            return False
        return None

    def _refresh_model(self) -> None:
        r = self._check()
        if r == 'unsat':
            raise Abort()
        if r != 'sat':
            # no model to guide the branch order on this path (feasibility undecided): carry on without guidance
            self.q['unknown'] = max(0, self.q.get('unknown', 0) - 1)
            self.q['unknown_branch_explored'] = self.q.get('unknown_branch_explored', 0) + 1
            self.model = None
            return
        self.model = self.last_model()

    # ------------------------------------------------------------------ branching
    def branch(self, cond: Any) -> bool:
        cond = simplify_fix(cond)
        if z3.is_true(cond):
            return True
        if z3.is_false(cond):
            return False
        if self.pos < len(self.decisions):
            kind, d = self.decisions[self.pos]
            if kind != 'b':
                raise Inconclusive('non-deterministic re-execution (decision kinds differ)')
            self.pos += 1
            self._assume(cond if d else z3.Not(cond))
            if self.pos == len(self.decisions):
                self._refresh_model()
            return d
        kn = self._known(cond)
        if kn is not None:          # syntactically implied by the path condition: no fork, no query
            self.decisions.append(('b', kn))
            self.pos += 1
            return kn
        v = self._model_says(cond)
        if v is None:
            self._refresh_model()
            v = self._model_says(cond)
            if v is None:
                v = True
        other = z3.Not(cond) if v else cond
        r = self._check(other)
        if r == 'sat':
            self.pending.append(self.decisions[:self.pos] + [('b', not v)])
        elif r != 'unsat':
            # feasibility of the other side undecided: explore it as if feasible. Sound: an infeasible path can only add vacuous
            # obligations (or a counterexample that does not replay, which is reported as inconclusive), it cannot hide anything
            self.q['unknown'] = max(0, self.q.get('unknown', 0) - 1)
            self.q['unknown_branch_explored'] = self.q.get('unknown_branch_explored', 0) + 1
            self.pending.append(self.decisions[:self.pos] + [('b', not v)])
        self.decisions.append(('b', v))
        self.pos += 1
        self._assume(cond if v else z3.Not(cond))
        return v

    def choose(self, e: Any, what: str = 'value') -> int:
        """concretise the bit-vector term e: fork over all of its feasible values (capped)."""
        e = z3.simplify(e)
        if z3.is_bv_value(e):
            return e.as_signed_long()
        if self.pos < len(self.decisions):
            kind, d = self.decisions[self.pos]
            if kind != 'c':
                raise Inconclusive('non-deterministic re-execution (decision kinds differ)')
            self.pos += 1
            self._assume(e == z3.BitVecVal(d, e.size()))
            if self.pos == len(self.decisions):
                self._refresh_model()
            return d
        vals: List[int] = []
        self.solver.push()
        try:
            while True:
                r = self._check()
                if r == 'unsat':
                    break
                if r != 'sat':
                    raise Inconclusive(f'solver returned {r} while enumerating {what}')
                v = self.last_model().eval(e, model_completion=True).as_signed_long()
                vals.append(v)
                if len(vals) > self.enum_cap:
                    raise Inconclusive(f'concretisation of {what} has more than {self.enum_cap} feasible values')
                self.solver.add(e != z3.BitVecVal(v, e.size()))
        finally:
            self.solver.pop()
        if not vals:
            raise Abort()
        vals.sort()
        for v in vals[1:]:
            self.pending.append(self.decisions[:self.pos] + [('c', v)])
        self.decisions.append(('c', vals[0]))
        self.pos += 1
        self._assume(e == z3.BitVecVal(vals[0], e.size()))
        self._refresh_model()
        return vals[0]

    # ------------------------------------------------------------------ obligations
    def prove(self, cond: Any, label: str, *, detail: Optional[Callable[[z3.ModelRef], Any]] = None) -> bool:
        """obligation: under the current path condition cond always holds."""
        self.obligations += 1
        if isinstance(cond, bool):
            cond = z3.BoolVal(cond)
        cond = z3.simplify(cond)
        if z3.is_true(cond):
            self.discharged += 1
            return True
        r = self._check(z3.Not(cond))
        if r == 'unsat':
            self.discharged += 1
            return True
        if r == 'sat':
            m = self.last_model()
            self.failed.append({'label': label, 'model': self.model_values(m),
                                'detail': detail(m) if detail else None, 'decisions': list(self.decisions[:self.pos])})
            return False
        raise Inconclusive(f'solver returned {r} on obligation {label}')

    def prove_all(self, items: List[Tuple[Any, str]], *, detail: Optional[Callable[[z3.ModelRef], Any]] = None,
                  prefer: Optional[List[Any]] = None) -> bool:
        """several obligations under the current path condition, discharged by one query when they all hold."""
        conds = []
        for c, _ in items:
            conds.append(z3.BoolVal(c) if isinstance(c, bool) else c)
        conj = z3.simplify(z3.And(*conds)) if conds else z3.BoolVal(True)
        self.obligations += len(items)
        if z3.is_true(conj):
            self.discharged += len(items)
            return True
        r = self._check(z3.Not(conj))
        if r == 'unsat':
            self.discharged += len(items)
            return True
        if r != 'sat':
            # the conjunction was too hard as one query: each obligation on its own (sound: all unsat => the conjunction holds)
            self.q['unknown'] = max(0, self.q.get('unknown', 0) - 1)
            self.retried = getattr(self, 'retried', 0) + 1
            self.obligations -= len(items)
            ok = True
            for c, l in zip(conds, [l for _, l in items]):
                ok = self.prove(c, l, detail=detail) and ok
            return ok
        m = self.last_model()
        if prefer:
            # a counterexample exists; prefer one with extra properties that make it easy to replay (purely cosmetic)
            r2 = self._check(z3.Not(conj), *prefer)
            if r2 == 'sat':
                m = self.last_model()
        bad = [l for c, l in zip(conds, [l for _, l in items]) if not z3.is_true(m.eval(c, model_completion=True))]
        self.discharged += len(items) - max(1, len(bad))
        self.failed.append({'label': bad[0] if bad else items[0][1], 'all_failing': bad, 'model': self.model_values(m),
                            'detail': detail(m) if detail else None, 'decisions': list(self.decisions[:self.pos])})
        return False

    def possible(self, cond: Any) -> bool:
        if isinstance(cond, bool):
            return cond
        r = self._check(cond)
        if r == 'unknown':
            raise Inconclusive('solver returned unknown on a reachability query')
        return r == 'sat'

    def witness(self, name: str, cond: Any = True) -> None:
        """vacuity guard: record that a state of this class is reachable on this path."""
        if self.witnesses.get(name):
            return
        if isinstance(cond, bool):
            if cond:
                self.witnesses[name] = 1
            return
        if self._model_says(cond) is True:
            self.witnesses[name] = 1
            return
        if self.paths < 40 or self.paths % 25 == 0:
            if self.possible(cond):
                self.witnesses[name] = 1

    def model_values(self, m: z3.ModelRef) -> Dict[str, Any]:
        out: Dict[str, Any] = {}
        for name, c in self.inputs.items():
            v = m.eval(c, model_completion=True)
            if z3.is_bv_value(v):
                out[name] = v.as_signed_long() if getattr(c, '_fjv_signed', True) else v.as_long()
            elif z3.is_true(v) or z3.is_false(v):
                out[name] = z3.is_true(v)
            else:
                out[name] = str(v)
        return out

    # ------------------------------------------------------------------ exploration
    def explore(self, fn: Callable[[], Any], on_path: Optional[Callable[[Any], None]] = None) -> None:
        """run fn once per feasible decision sequence."""
        global _E
        prev = _E
        _E = self
        try:
            self.pending = [[]]
            t_start = time.time()
            while self.pending:
                if self.paths >= self.max_paths:
                    raise Inconclusive(f'path bound {self.max_paths} reached')
                if time.time() - t_start > self.max_seconds:
                    raise Inconclusive(f'time bound {self.max_seconds:.0f}s of one exploration reached after {self.paths} paths')
                self.decisions = self.pending.pop()
                self.pos = 0
                self.pc = []
                self.model = None
                self.bit_facts = {}
                self.fmt_terms = []
                self.known = {}
                self.solver = z3.Solver()     # a fresh solver per path: no lemma/atom build-up across paths
                self.solver.set('timeout', self.timeout_ms)
                self.solver.push()
                try:
                    for c in self.base:
                        self.solver.add(c)
                    if not self.decisions:
                        self._refresh_model()
                    out = fn()
                    self.paths += 1
                    if on_path is not None:
                        on_path(out)
                except Abort:
                    self.aborted += 1
                finally:
                    self.solver.pop()
        finally:
            _E = prev

    def stats(self) -> Dict[str, Any]:
        return {'paths': self.paths, 'queries': dict(self.q), 'solver_s': self.solver_s,
                'obligations': self.obligations, 'discharged': self.discharged, 'witnesses': dict(self.witnesses)}


# ====================================================================== proxies

def _fits(E: Engine, lo: int, hi: int) -> None:
    if lo < E.MIN or hi > E.MAX:
        raise WidthBound(f'value range [{lo.bit_length()} bits, {hi.bit_length()} bits] may exceed the {E.W}-bit encoding')


def is_sym(x: Any) -> bool:
    return isinstance(x, (SymInt, SymBool)) or type(x) in (SymInt, SymBool)


def lift(x: Any) -> Tuple[Any, int, int]:
    """-> (z3 bit-vector term of width W, lo, hi)"""
    E = engine()
    t = type(x)
    if t is SymInt:
        return x.e, x.lo, x.hi
    if t is SymBool:
        return z3.If(x.e, z3.BitVecVal(1, E.W), z3.BitVecVal(0, E.W)), 0, 1
    if t is bool:
        return z3.BitVecVal(int(x), E.W), int(x), int(x)
    if t is int or isinstance(x, int):
        x = int(x)
        _fits(E, x, x)
        return z3.BitVecVal(x, E.W), x, x
    raise TypeError(f'cannot lift {t.__name__} to a symbolic int')


def mk(e: Any, lo: int, hi: int) -> Any:
    E = engine()
    _fits(E, lo, hi)
    e = z3.simplify(e)
    if z3.is_bv_value(e) and not E.keep_const:
        return e.as_signed_long()
    return SymInt(e, lo, hi)


def mkb(e: Any) -> Any:
    e = z3.simplify(e)
    if not engine().keep_const:
        if z3.is_true(e):
            return True
        if z3.is_false(e):
            return False
    return SymBool(e)


def _bl(*vals: int) -> int:
    return max(v.bit_length() for v in vals)


class SymBool:
    __slots__ = ('e', 'tag')

    def __init__(self, e: Any, tag: Any = None):
        self.e = e
        self.tag = tag      # ('bit', x, off, polarity): this bool is "bit off of x == polarity"

    def __bool__(self) -> bool:
        E = engine()
        d = E.branch(self.e)
        if self.tag is not None:
            _, x, off, pol = self.tag
            E.bit_facts[(x.get_id(), off.get_id())] = (d == pol, x, off)
        return d

    def _other(self, o: Any) -> Any:
        t = type(o)
        if t is SymBool:
            return o.e
        if t is bool:
            return z3.BoolVal(o)
        return None

    def __eq__(self, o: Any) -> Any:  # type: ignore[override]
        b = self._other(o)
        if b is not None:
            return mkb(self.e == b)
        if isinstance(o, int) or type(o) is SymInt:
            return _as_int(self) == o
        return False

    def __ne__(self, o: Any) -> Any:  # type: ignore[override]
        r = self.__eq__(o)
        return (not r) if isinstance(r, bool) else mkb(z3.Not(r.e))

    def __and__(self, o: Any) -> Any:
        b = self._other(o)
        return mkb(z3.And(self.e, b)) if b is not None else _as_int(self) & o

    __rand__ = __and__

    def __or__(self, o: Any) -> Any:
        b = self._other(o)
        return mkb(z3.Or(self.e, b)) if b is not None else _as_int(self) | o

    __ror__ = __or__

    def __xor__(self, o: Any) -> Any:
        b = self._other(o)
        return mkb(z3.Xor(self.e, b)) if b is not None else _as_int(self) ^ o

    __rxor__ = __xor__

    def __invert__(self) -> Any:
        return ~_as_int(self)

    def __int__(self) -> int:
        return 1 if engine().branch(self.e) else 0      # builtin int() insists on an exact int: fork

    __index__ = __int__

    def __hash__(self) -> int:
        return hash(bool(self))

    def __repr__(self) -> str:
        return '<symbool>'

    __str__ = __repr__

    def __format__(self, spec: str) -> str:
        return '<symbool>'

    # arithmetic on bools goes through ints
    def __add__(self, o: Any) -> Any: return _as_int(self) + o
    def __radd__(self, o: Any) -> Any: return o + _as_int(self)
    def __sub__(self, o: Any) -> Any: return _as_int(self) - o
    def __rsub__(self, o: Any) -> Any: return o - _as_int(self)
    def __mul__(self, o: Any) -> Any: return _as_int(self) * o
    def __rmul__(self, o: Any) -> Any: return o * _as_int(self)
    def __lshift__(self, o: Any) -> Any: return _as_int(self) << o
    def __rlshift__(self, o: Any) -> Any: return o << _as_int(self)
    def __lt__(self, o: Any) -> Any: return _as_int(self) < o
    def __le__(self, o: Any) -> Any: return _as_int(self) <= o
    def __gt__(self, o: Any) -> Any: return _as_int(self) > o
    def __ge__(self, o: Any) -> Any: return _as_int(self) >= o

    @property
    def __class__(self) -> type:  # isinstance(x, bool) and isinstance(x, int) hold
        return bool


def _as_int(b: SymBool) -> Any:
    e, lo, hi = lift(b)
    return mk(e, lo, hi)


def _is_intlike(o: Any) -> bool:
    t = type(o)
    return t is SymInt or t is SymBool or t is int or t is bool or (isinstance(o, int) and t is not SymBool)


class SymInt:
    # tag: provenance of single-bit idioms, used for ONE rewrite justified by a lemma that every check using it
    # proves per width (see bit_lemmas): with b = bit `off` of x:  b=0 => x | (1<<off) == x ^ (1<<off),
    # b=1 => x & (M - (1<<off)) == x ^ (1<<off) for M = 2^n-1 >= x.  b is known from a branch already taken on
    # this path ("(x >> off) & 1 == 1").  The rewrite makes the read-test-write flip of the featured loop
    # syntactically equal to the xor of the other engines, which turns multi-second queries into trivial ones.
    __slots__ = ('e', 'lo', 'hi', 'tag')

    def __init__(self, e: Any, lo: int, hi: int, tag: Any = None):
        self.e, self.lo, self.hi, self.tag = e, lo, hi, tag

    @property
    def __class__(self) -> type:  # isinstance(x, int) holds (Expr.is_int, Expr.eval_new need it)
        return int

    # ---- helpers
    @staticmethod
    def _bin(op: Callable[[Any, Any], Any], rng: Callable[[int, int, int, int], Tuple[int, int]], swap: bool = False):
        def f(self: 'SymInt', o: Any) -> Any:
            if not _is_intlike(o):
                return NotImplemented
            a, al, ah = self.e, self.lo, self.hi
            b, bl, bh = lift(o)
            if swap:
                a, al, ah, b, bl, bh = b, bl, bh, a, al, ah
            lo, hi = rng(al, ah, bl, bh)
            return mk(op(a, b), lo, hi)
        return f

    def _cmp(op: Callable[[Any, Any], Any]):  # type: ignore[misc]
        def f(self: 'SymInt', o: Any) -> Any:
            if not _is_intlike(o):
                return NotImplemented
            b, _, _ = lift(o)
            return mkb(op(self.e, b))
        return f

    # ---- interval helpers
    @staticmethod
    def _r_add(al, ah, bl, bh): return al + bl, ah + bh
    @staticmethod
    def _r_sub(al, ah, bl, bh): return al - bh, ah - bl

    @staticmethod
    def _r_mul(al, ah, bl, bh):
        ps = (al * bl, al * bh, ah * bl, ah * bh)
        return min(ps), max(ps)

    @staticmethod
    def _r_and(al, ah, bl, bh):
        if al >= 0 and bl >= 0:
            return 0, min(ah, bh)
        if al >= 0:
            return 0, ah
        if bl >= 0:
            return 0, bh
        k = _bl(al, ah, bl, bh)
        return -(1 << k), (1 << k) - 1

    @staticmethod
    def _r_or(al, ah, bl, bh):
        k = _bl(al, ah, bl, bh)
        if al >= 0 and bl >= 0:
            return 0, (1 << k) - 1
        return -(1 << k), (1 << k) - 1

    _r_xor = _r_or

    __add__ = _bin.__func__(lambda a, b: a + b, _r_add.__func__)
    __radd__ = _bin.__func__(lambda a, b: a + b, _r_add.__func__, True)
    __sub__ = _bin.__func__(lambda a, b: a - b, _r_sub.__func__)
    __rsub__ = _bin.__func__(lambda a, b: a - b, _r_sub.__func__, True)
    __mul__ = _bin.__func__(lambda a, b: a * b, _r_mul.__func__)
    __rmul__ = _bin.__func__(lambda a, b: a * b, _r_mul.__func__, True)
    __and__ = _bin.__func__(lambda a, b: a & b, _r_and.__func__)
    __rand__ = _bin.__func__(lambda a, b: a & b, _r_and.__func__, True)
    __or__ = _bin.__func__(lambda a, b: a | b, _r_or.__func__)
    __ror__ = _bin.__func__(lambda a, b: a | b, _r_or.__func__, True)
    __xor__ = _bin.__func__(lambda a, b: a ^ b, _r_xor.__func__)
    __rxor__ = _bin.__func__(lambda a, b: a ^ b, _r_xor.__func__, True)

    _and_plain, _or_plain, _rsub_plain = __and__, __or__, __rsub__

    def __and__(self, o: Any) -> Any:  # type: ignore[no-redef]
        if type(o) is int and o == 1 and self.tag is not None and self.tag[0] == 'shr':
            r = SymInt._and_plain(self, o)
            if type(r) is SymInt:
                r.tag = ('bit', self.tag[1], self.tag[2])
            return r
        if type(o) is SymInt and o.tag is not None and o.tag[0] == 'invhot' and 0 <= self.lo and self.hi <= o.tag[2]:
            E = engine()
            fact = E.bit_facts.get((self.e.get_id(), o.tag[1].get_id()))
            if fact is not None and fact[0] is True:
                E.bit_rewrites += 1
                return self ^ mk(z3.BitVecVal(1, E.W) << o.tag[1], 1, o.tag[2])
        return SymInt._and_plain(self, o)

    def __or__(self, o: Any) -> Any:  # type: ignore[no-redef]
        if type(o) is SymInt and o.tag is not None and o.tag[0] == 'onehot' and self.lo >= 0:
            E = engine()
            fact = E.bit_facts.get((self.e.get_id(), o.tag[1].get_id()))
            if fact is not None and fact[0] is False:
                E.bit_rewrites += 1
                return self ^ o
        return SymInt._or_plain(self, o)

    def __rsub__(self, o: Any) -> Any:  # type: ignore[no-redef]
        r = SymInt._rsub_plain(self, o)
        if (type(o) is int and o > 0 and (o & (o + 1)) == 0 and self.tag is not None and self.tag[0] == 'onehot'
                and type(r) is SymInt and self.hi <= o):
            r.tag = ('invhot', self.tag[1], o)
        return r

    __lt__ = _cmp(lambda a, b: a < b)
    __le__ = _cmp(lambda a, b: a <= b)
    __gt__ = _cmp(lambda a, b: a > b)
    __ge__ = _cmp(lambda a, b: a >= b)

    def __eq__(self, o: Any) -> Any:  # type: ignore[override]
        if not _is_intlike(o):
            return False
        b, _, _ = lift(o)
        r = mkb(self.e == b)
        if type(r) is SymBool and type(o) is int and o in (0, 1) and self.tag is not None and self.tag[0] == 'bit':
            r.tag = ('bit', self.tag[1], self.tag[2], o == 1)
        return r

    def __ne__(self, o: Any) -> Any:  # type: ignore[override]
        if not _is_intlike(o):
            return True
        b, _, _ = lift(o)
        r = mkb(self.e != b)
        if type(r) is SymBool and type(o) is int and o in (0, 1) and self.tag is not None and self.tag[0] == 'bit':
            r.tag = ('bit', self.tag[1], self.tag[2], o == 0)
        return r

    def __bool__(self) -> bool:
        E = engine()
        d = E.branch(self.e != 0)
        if self.tag is not None and self.tag[0] == 'bit':
            E.bit_facts[(self.tag[1].get_id(), self.tag[2].get_id())] = (d, self.tag[1], self.tag[2])
        return d

    def __neg__(self) -> Any:
        return mk(-self.e, -self.hi, -self.lo)

    def __pos__(self) -> Any:
        return self

    def __abs__(self) -> Any:
        m = max(abs(self.lo), abs(self.hi))
        return mk(z3.If(self.e < 0, -self.e, self.e), 0 if self.lo <= 0 <= self.hi else min(abs(self.lo), abs(self.hi)), m)

    def __invert__(self) -> Any:
        return mk(~self.e, -self.hi - 1, -self.lo - 1)

    # ---- shifts
    @staticmethod
    def _shift_amount(o: Any) -> Tuple[Any, int, int]:
        b, bl, bh = lift(o)
        if bl < 0:
            if engine().branch(b < 0):
                raise ValueError('negative shift count')
            bl = 0
        return b, bl, bh

    def _do_lshift(a, al, ah, o):  # type: ignore[no-untyped-def]
        E = engine()
        b, bl, bh = SymInt._shift_amount(o)
        if bh > E.W:
            if al == 0 and ah == 0:
                return 0
            raise WidthBound(f'left shift by up to {bh} bits')
        lo = (al << bh) if al < 0 else (al << bl)
        hi = (ah << bh) if ah > 0 else (ah << bl)
        r = mk(a << b, lo, hi)
        if type(r) is SymInt and al == ah == 1 and type(o) is SymInt:
            r.tag = ('onehot', b)
        return r

    def _do_rshift(a, al, ah, o):  # type: ignore[no-untyped-def]
        E = engine()
        b, bl, bh = SymInt._shift_amount(o)
        if bh > E.MAX:
            raise WidthBound('right shift amount')
        c = (al >> bl, al >> min(bh, 4 * E.W), ah >> bl, ah >> min(bh, 4 * E.W))
        # z3 '>>' is arithmetic, like python's; for non-negative values use the logical shift (same value,
        # and the terms of different code paths then coincide syntactically)
        r = mk(z3.LShR(a, b) if al >= 0 else a >> b, min(c), max(c))
        if type(r) is SymInt and al >= 0 and type(o) is SymInt:
            r.tag = ('shr', a, b)
        return r

    def __lshift__(self, o: Any) -> Any:
        if not _is_intlike(o):
            return NotImplemented
        return SymInt._do_lshift(self.e, self.lo, self.hi, o)

    def __rlshift__(self, o: Any) -> Any:
        if not _is_intlike(o):
            return NotImplemented
        a, al, ah = lift(o)
        return SymInt._do_lshift(a, al, ah, self)

    def __rshift__(self, o: Any) -> Any:
        if not _is_intlike(o):
            return NotImplemented
        return SymInt._do_rshift(self.e, self.lo, self.hi, o)

    def __rrshift__(self, o: Any) -> Any:
        if not _is_intlike(o):
            return NotImplemented
        a, al, ah = lift(o)
        return SymInt._do_rshift(a, al, ah, self)

    # ---- division (python floor semantics; ZeroDivisionError like the real thing)
    @staticmethod
    def _divmod(a, al, ah, b, bl, bh, what: str):  # type: ignore[no-untyped-def]
        E = engine()
        if bl <= 0 <= bh:
            if E.branch(b == 0):
                raise ZeroDivisionError('integer division or modulo by zero' if what == 'div' else 'integer modulo by zero')
        q = z3.SDiv(a, b) if hasattr(z3, 'SDiv') else a / b
        r = z3.SRem(a, b)
        adj = z3.And(r != 0, (r < 0) != (b < 0))
        m = max(abs(al), abs(ah))
        if what == 'div':
            return mk(z3.If(adj, q - 1, q), -m - 1, m)
        lo = min(bl + 1, 0)
        hi = max(bh - 1, 0)
        return mk(z3.If(adj, r + b, r), lo, hi)

    def __floordiv__(self, o: Any) -> Any:
        if not _is_intlike(o):
            return NotImplemented
        b, bl, bh = lift(o)
        return SymInt._divmod(self.e, self.lo, self.hi, b, bl, bh, 'div')

    def __rfloordiv__(self, o: Any) -> Any:
        if not _is_intlike(o):
            return NotImplemented
        a, al, ah = lift(o)
        return SymInt._divmod(a, al, ah, self.e, self.lo, self.hi, 'div')

    def __mod__(self, o: Any) -> Any:
        if not _is_intlike(o):
            return NotImplemented
        b, bl, bh = lift(o)
        return SymInt._divmod(self.e, self.lo, self.hi, b, bl, bh, 'mod')

    def __rmod__(self, o: Any) -> Any:
        if not _is_intlike(o):
            return NotImplemented
        a, al, ah = lift(o)
        return SymInt._divmod(a, al, ah, self.e, self.lo, self.hi, 'mod')

    def __divmod__(self, o: Any) -> Any:
        return self // o, self % o

    def __truediv__(self, o: Any) -> Any:
        raise TypeError('symbolic true division yields a float: not an integer operation')

    __rtruediv__ = __truediv__

    # ---- power (exponent concretised)
    def __pow__(self, o: Any, mod: Any = None) -> Any:
        if mod is not None or not _is_intlike(o):
            return NotImplemented
        n = o if type(o) is int else int_of(o)
        if n < 0:
            raise TypeError('symbolic negative power yields a float')
        r: Any = 1
        for _ in range(n):
            r = r * self
        return r

    def __rpow__(self, o: Any) -> Any:
        if not _is_intlike(o):
            return NotImplemented
        n = int_of(self)
        if n < 0:
            raise TypeError('symbolic negative power yields a float')
        r: Any = 1
        for _ in range(n):
            r = r * o
        return r

    def bit_length(self) -> Any:
        E = engine()
        a = z3.If(self.e < 0, -self.e, self.e)
        r = z3.BitVecVal(0, E.W)
        top = max(abs(self.lo), abs(self.hi)).bit_length()
        for i in range(top):
            r = z3.If(z3.Extract(i, i, a) == 1, z3.BitVecVal(i + 1, E.W), r)
        return mk(r, 0, top)

    # ---- concretisation
    def __index__(self) -> int:
        return engine().choose(self.e, 'an int used as index/size')

    def __hash__(self) -> int:
        return hash(engine().choose(self.e, 'an int used as dict/set key'))

    def __int__(self) -> Any:
        return self

    def __repr__(self) -> str:
        return fmt_token(self.e)

    __str__ = __repr__

    def __format__(self, spec: str) -> str:
        return fmt_token(self.e)


def fmt_token(e: Any) -> str:
    """text stand-in for a symbolic value inside formatted messages: a token from which the harness can recover the term"""
    E = _E
    if E is None:
        return '<sym>'
    E.fmt_terms.append(e)
    return f'\u27e6{len(E.fmt_terms) - 1}\u27e7'


def tokens_in(text: str) -> List[Any]:
    """the terms (in order) whose tokens occur in a formatted message"""
    import re
    E = engine()
    return [E.fmt_terms[int(m)] for m in re.findall('\u27e6(\\d+)\u27e7', text)]


def bit_lemmas(w: int) -> List[Tuple[Any, str]]:
    """the two facts that justify the single-bit rewrite in SymInt.__or__/__and__ (proved by the caller per width)"""
    x = z3.BitVec('lx', w)
    off = z3.BitVec('loff', w)
    one = z3.BitVecVal(1, w) << off
    bit = z3.Extract(0, 0, z3.LShR(x, off)) == 1
    in_range = z3.ULT(off, w)
    m = z3.BitVecVal((1 << w) - 1, w)
    return [(z3.Implies(z3.And(in_range, z3.Not(bit)), (x | one) == (x ^ one)), f'bit lemma w={w}: clear bit: x | 2^k == x ^ 2^k'),
            (z3.Implies(z3.And(in_range, bit), (x & (m - one)) == (x ^ one)), f'bit lemma w={w}: set bit: x & (M - 2^k) == x ^ 2^k')]


def int_of(x: Any) -> int:
    """concrete python int of x (forking over feasible values if symbolic)."""
    if type(x) is SymInt:
        return engine().choose(x.e, 'an int that must be concrete')
    if type(x) is SymBool:
        return 1 if bool(x) else 0
    return int(x)


# ====================================================================== input construction

def sym_int(name: str, lo: int, hi: int) -> Any:
    """a fresh (per name) symbolic integer in [lo, hi]."""
    E = engine()
    _fits(E, lo, hi)
    c = z3.BitVec(name, E.W)
    if name not in E.inputs:
        E.inputs[name] = c
        E.base.append(z3.And(c >= lo, c <= hi))
        E.solver.add(z3.And(c >= lo, c <= hi))
    return SymInt(c, lo, hi)


def sym_bool(name: str) -> Any:
    E = engine()
    c = z3.Bool(name)
    E.inputs.setdefault(name, c)
    return SymBool(c)


def assume(cond: Any) -> None:
    """path-level precondition (placed before the code it constrains)."""
    E = engine()
    if type(cond) is SymBool:
        c = z3.simplify(cond.e)
    elif isinstance(cond, bool):
        c = z3.BoolVal(cond)
    else:
        c = z3.simplify(cond)
    if z3.is_true(c):
        return
    if z3.is_false(c):
        raise Abort()
    E._assume(c)
    if E._model_says(c) is not True:
        E._refresh_model()


def to_z3(x: Any) -> Any:
    return lift(x)[0]


def to_z3_bool(x: Any) -> Any:
    if type(x) is SymBool:
        return x.e
    if type(x) is bool:
        return z3.BoolVal(x)
    e = lift(x)[0]
    return e != 0


class IntShim(type):
    """replacement for the name `int` inside repo modules: keeps proxies intact.
    CPython's int(x) copies any __int__ result to an exact int, which would strip the proxy; the contract
    ("the integer value of x") is unchanged."""
    def __instancecheck__(cls, o: Any) -> bool:
        import builtins
        return builtins.isinstance(o, builtins.int)


class int_shim(metaclass=IntShim):
    def __new__(cls, x: Any = 0, *a: Any) -> Any:  # type: ignore[misc]
        import builtins
        if not a and is_sym(x):
            return x if type(x) is SymInt else _as_int(x)
        if not a and hasattr(type(x), '__int__') and not isinstance(x, (str, bytes, bytearray, float, builtins.int)):
            return type(x).__int__(x)
        return builtins.int(x, *a)


def sym_hex(x: Any) -> str:
    import builtins
    if type(x) is SymInt:
        return '0x' + fmt_token(x.e)
    return builtins.hex(int(x)) if not is_sym(x) else '0x<symbool>'


# ====================================================================== byte strings

class SymBytes:
    """bytes look-alike of concrete length whose items may be symbolic (ints in [0,255])."""

    def __init__(self, items: Any = ()):
        self.items = list(items)

    @property
    def __class__(self) -> type:
        return bytes

    def __len__(self) -> int:
        return len(self.items)

    def __bool__(self) -> bool:
        return bool(self.items)

    def __getitem__(self, i: Any) -> Any:
        if isinstance(i, slice):
            return SymBytes(self.items[i])
        if type(i) is SymInt:
            i = int_of(i)
        return self.items[i]

    def __iter__(self) -> Any:
        return iter(self.items)

    def __add__(self, o: Any) -> Any:
        if type(o) is SymBytes:
            return SymBytes(self.items + o.items)
        if type(o) in (bytes, bytearray):
            return SymBytes(self.items + list(o))
        return NotImplemented

    def __radd__(self, o: Any) -> Any:
        if type(o) in (bytes, bytearray):
            return SymBytes(list(o) + self.items)
        return NotImplemented

    def __eq__(self, o: Any) -> Any:  # type: ignore[override]
        other = o.items if type(o) is SymBytes else (list(o) if type(o) in (bytes, bytearray) else None)
        if other is None or len(other) != len(self.items):
            return False
        r: Any = True
        for a, b in zip(self.items, other):
            r = (a == b) & r if is_sym(a == b) or is_sym(r) else ((a == b) and r)
        return r

    def __hash__(self) -> int:
        return hash(tuple(int_of(x) for x in self.items))

    def decode(self, *a: Any, **k: Any) -> str:
        return '<symbytes>'

    def __repr__(self) -> str:
        return f'<symbytes len={len(self.items)}>'


def _to_bytes(self: SymInt, length: int = 1, byteorder: str = 'big', *, signed: bool = False) -> Any:
    E = engine()
    if signed:
        raise TypeError('symbolic signed to_bytes not modelled')
    if self.lo < 0 and E.branch(self.e < 0):
        raise OverflowError("can't convert negative int to unsigned")
    if self.hi >= (1 << (8 * length)) and E.branch(self.e >= (1 << (8 * length))):
        raise OverflowError('int too big to convert')
    items = [mk(z3.ZeroExt(E.W - 8, z3.Extract(8 * i + 7, 8 * i, self.e)), 0, 255) for i in range(length)]
    if byteorder == 'big':
        items.reverse()
    return SymBytes(items)


SymInt.to_bytes = _to_bytes  # type: ignore[attr-defined]


def sym_bytes(name: str, n: int) -> SymBytes:
    return SymBytes([sym_int(f'{name}{i}', 0, 255) for i in range(n)])
