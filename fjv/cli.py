"""./check <property-id> [--tier quick|thorough] [--replay <file>]"""
from __future__ import annotations

import argparse
import importlib
import os
import sys
import traceback

from fjv import common


def main() -> int:
    ap = argparse.ArgumentParser()
    ap.add_argument('prop')
    ap.add_argument('--tier', default=os.environ.get('VERIF_TIER', 'quick'), choices=['quick', 'thorough'])
    ap.add_argument('--replay', default=None)
    ap.add_argument('--only', default=None, help='debug: restrict to harnesses whose name contains this')
    args = ap.parse_args()
    prop = args.prop.upper()
    os.environ['FJV_RUN'] = str(os.getpid())
    import atexit
    import shutil
    root = common.run_root()
    atexit.register(lambda: shutil.rmtree(root, ignore_errors=True) if os.environ.get('FJV_RUN') == str(os.getpid()) else None)
    common.use_repo()
    try:
        mod = importlib.import_module(f'fjv.checks.{prop.lower()}')
    except ModuleNotFoundError as e:
        if f'fjv.checks.{prop.lower()}' in str(e):
            print(f'no check for {prop}')
            return common.EXIT_INCONCLUSIVE
        raise
    if args.replay:
        return int(mod.replay(args.replay))
    report = common.Report(prop, args.tier)
    if args.only:
        # a debugging subset cannot reach every witness class: the vacuity guard applies to full runs only (and a subset run
        # does not overwrite the evidence file of the full check)
        report.require_witnesses = lambda *a, **k: None          # type: ignore[method-assign]
        report.partial = True
    try:
        mod.run(report, args.tier, only=args.only)
    except common.Inconclusive as e:
        report.inconclusive.append(f'{type(e).__name__}: {e}')
    except Exception:
        report.inconclusive.append('harness error: ' + traceback.format_exc()[-1500:])
    return report.finish()


if __name__ == '__main__':
    sys.exit(main())
