"""Running the real (text-driven) assembler pipeline on symbolic integers (C02, C03, C12, C14, C16).

The source text is concrete; its numbers are identifiers (P0, P1, ...) that are pre-seeded into the parser's constant
table as Expr(<proxy>) - the grammar's `id` rule returns the constant, so parse-time folding, macro-argument eval_new,
rep/pad/segment/reserve operands and final exact_eval all see the symbol.  The whole real assembler.assemble() runs
(parser, preprocessor, labels_resolve, Writer) with the file/struct/lzma stubs of fjmio.
"""
from __future__ import annotations

import builtins
from pathlib import Path
from typing import Any, Dict, List, Optional, Tuple

from fjv import fjmio
from fjv.pysym import int_shim, sym_hex, is_sym

STUBS = [
    'the name `int` inside flipjump.assembler.inner_classes.expr and fj_parser -> shim that keeps proxies (CPython\'s int() '
    'copies an __int__ result to an exact int); contract "integer value of x" unchanged',
    'FJParser.__init__ wrapped to pre-seed the constants table with symbolic values for the identifiers P0..Pk',
    'assembler.save_debugging_labels -> recorder (json cannot serialise proxies); the label dict itself is inspected',
    'print (syntax-error echo) -> silenced',
] + fjmio.Env.STUBS


class AsmResult:
    def __init__(self) -> None:
        self.ok = False
        self.exc: Optional[BaseException] = None
        self.writer: Any = None
        self.labels: Optional[Dict[str, Any]] = None
        self.env: Any = None
        self.file_written = False

    def exc_kind(self) -> str:
        """'library-specific' | 'library-generic' | 'foreign:<type>'"""
        from flipjump.utils.exceptions import FlipJumpException
        e = self.exc
        if isinstance(e, FlipJumpException):
            if 'Unknown exception during assembling' in str(e):
                return 'library-generic'
            return 'library-specific'
        return f'foreign:{type(e).__name__}'


_installed = False


def install() -> None:
    global _installed
    from flipjump.assembler import fj_parser, assembler, preprocessor
    from flipjump.assembler.inner_classes import expr as expr_mod, ops as ops_mod
    expr_mod.int = int_shim                       # type: ignore[attr-defined]
    fj_parser.int = int_shim                      # type: ignore[attr-defined]
    ops_mod.int = int_shim                        # type: ignore[attr-defined]
    for mod in (fj_parser, assembler, preprocessor, expr_mod, ops_mod):
        mod.hex = sym_hex                         # type: ignore[attr-defined]
    fj_parser.print = lambda *a, **k: None        # type: ignore[attr-defined]
    if not _installed:
        orig_init = fj_parser.FJParser.__init__

        def init(self: Any, memory_width: int, warning_as_errors: bool, first_file: Any) -> None:
            orig_init(self, memory_width, warning_as_errors, first_file)
            for name, val in _CONSTS.items():
                self.consts[name] = expr_mod.Expr(val)
        fj_parser.FJParser.__init__ = init        # type: ignore[method-assign]
        _installed = True


_CONSTS: Dict[str, Any] = {}


def assemble(files: List[Tuple[str, Path]], w: int, version: int, consts: Dict[str, Any], *, warning_as_errors: bool = True,
             dict_threshold: Optional[int] = 3, out_path: str = '/mem/out.fjm', flags: int = 0) -> AsmResult:
    """run the real assembler.assemble on concrete source files whose identifiers `consts` are symbolic."""
    from flipjump.assembler import assembler, fj_parser
    from flipjump.fjm.fjm_consts import FJMVersion
    from flipjump.fjm.fjm_writer import Writer
    install()
    _CONSTS.clear()
    _CONSTS.update(consts)
    res = AsmResult()
    env = fjmio.Env(dict_threshold=dict_threshold)
    res.env = env
    recorded: Dict[str, Any] = {}

    def save_labels(path: Any, labels: Dict[str, Any]) -> None:
        recorded['labels'] = dict(labels)
    assembler.save_debugging_labels = save_labels          # type: ignore[attr-defined]
    fj_parser._stl_prefix_cache.clear()
    try:
        wr = Writer(Path(out_path), w, FJMVersion(version), flags=flags)   # type: ignore[arg-type]
        res.writer = wr
        assembler.assemble(files, w, wr, warning_as_errors=warning_as_errors, debugging_file_path=Path('/mem/out.fjd'),
                           print_time=False)
        res.ok = True
    except Exception as e:  # noqa: BLE001 - classified by the caller
        res.exc = e
    res.labels = recorded.get('labels')
    res.file_written = out_path in env.fs.files
    return res


def read_back(res: AsmResult, out_path: str = '/mem/out.fjm') -> Any:
    """the real Reader on what the assembler wrote"""
    return res.env.VReader(Path(out_path))


def uninstall() -> None:
    """back to the real modules for replays on the real code: no symbolic constants, real int/hex/print, real fjm io"""
    from flipjump.assembler import fj_parser, assembler, preprocessor
    from flipjump.assembler.inner_classes import expr as expr_mod, ops as ops_mod
    import flipjump.utils.functions as functions
    _CONSTS.clear()
    for mod in (fj_parser, assembler, preprocessor, expr_mod, ops_mod):
        for name in ('int', 'hex', 'print'):
            mod.__dict__.pop(name, None)
    assembler.save_debugging_labels = functions.save_debugging_labels      # type: ignore[attr-defined]
    fj_parser._stl_prefix_cache.clear()
    fjmio.Env.uninstall()
