"""Harness + specification tables for the standard-library macro checks (C04, C05, C08, C09) on top of fjsx.

Per macro and configuration (memory width, vector length, compile-time parameters) every operand value is symbolic.
Run 1 executes the whole assembled program from ip 0 (startup, table init, the macro).  On every final state: it halted at
the documented exit label, the destination holds the documented formula, every other declared variable is unchanged, output /
input are as documented.  Run 2 (re-entry) starts the SAME macro site again from the memory run 1 left behind (whatever it
left in macro-local temporaries, carries, shared table cells) with fresh operand values, and checks the specification again:
a macro that is correct from a pristine image but leaves state that corrupts a later execution fails here.
"""
from __future__ import annotations

import re
import time
from dataclasses import dataclass, field
from typing import Any, Callable, Dict, List, Optional, Tuple

import z3

from fjv import common, fjsx
from fjv.common import Inconclusive


@dataclass
class Spec:
    name: str                                   # e.g. 'hex.add'
    call: str                                   # macro call text; {n} etc. are replaced by the configuration's parameters
    vars: Dict[str, str]                        # variable name -> size expression in terms of the params ('n', '1', ...)
    kind: str                                   # 'hex' | 'bit' : kind of the declared variables
    post: Callable[[Dict[str, Any], Dict[str, int]], Dict[str, Any]]   # values before, params -> expected values of changed vars
    doc: str                                    # text that must still be in the comment above the def (spec drift guard)
    file: str                                   # stl file holding the def
    params: List[Dict[str, int]] = field(default_factory=list)          # quick-tier configurations
    params_thorough: List[Dict[str, int]] = field(default_factory=list)
    exits: List[str] = field(default_factory=list)                      # branch labels the call mentions (X_...)
    exit: Optional[Callable[[Dict[str, Any], Dict[str, int]], Any]] = None   # -> z3 term: index into exits, or len(exits) = falls through
    out: Optional[Callable[[Dict[str, Any], Dict[str, int]], List[Any]]] = None   # expected output bits (list of 1-bit terms / ints)
    n_in: int = 0                               # symbolic input bits provided
    pre: Optional[Callable[[Dict[str, Any], Dict[str, int]], Any]] = None    # documented precondition on the operands
    init: str = 'stl.startup_and_init_all'
    widths: Tuple[int, ...] = (64,)
    reenter: bool = True
    kinds: Optional[Dict[str, str]] = None      # per-variable kind override ('hex' | 'bit' | 'byte' = hex cell carrying 8 data bits)
    extra: str = ''                             # extra source lines (functions called by the macro under test)
    cases: Optional[Callable[[Dict[str, Any]], List[Dict[str, int]]]] = None   # params(+labels) -> concrete values of some variables
    # (pointers): the harness is run once per case (and once per ordered pair of cases in the re-entry check) with those
    # variables concrete, every other variable symbolic


def bits_per(kind: str) -> int:
    return {'hex': 4, 'bit': 1, 'byte': 8}[kind]


def eval_size(expr: str, params: Dict[str, int]) -> int:
    return int(eval(expr, {}, dict(params)))


def build_source(spec: Spec, params: Dict[str, int]) -> Tuple[str, Dict[str, Tuple[str, int]]]:
    call = spec.call.format(**params)
    lines = [spec.init, 'L_begin:', call, 'X_end:', 'stl.loop']
    for x in spec.exits:
        lines += [f'{x}:', 'stl.loop']
    if spec.extra:
        lines.append(spec.extra.format(**params))
    decl: Dict[str, Tuple[str, int]] = {}
    for v, size in spec.vars.items():
        n = eval_size(size, params)
        kind = (spec.kinds or {}).get(v, spec.kind)
        decl[v] = (kind, n)
        lines.append(f"{v}: {'hex' if kind == 'byte' else kind}.vec {n}")
    return '\n'.join(lines) + '\n', decl


def doc_of(spec: Spec) -> str:
    """the comment block above the macro's def in the current stl (for the drift guard)"""
    path = common.REPO / 'flipjump' / 'stl' / spec.file
    lines = path.read_text().split('\n')
    base = spec.name.split('(')[0].split('.')[-1]
    first = spec.call.split('\n')[0]
    nparams = len([p for p in first.split(None, 1)[1].split(',')]) if ' ' in first.strip() else 0
    for i, ln in enumerate(lines):
        m = re.match(r'\s*def\s+(\S+)\s*([^@<>{]*)', ln)
        if not m or m.group(1) != base:
            continue
        ps = [p for p in m.group(2).split(',') if p.strip()]
        if len(ps) != nparams:
            continue
        doc = []
        j = i - 1
        while j >= 0 and lines[j].strip().startswith('//'):
            doc.append(lines[j].strip()[2:].strip())
            j -= 1
        return ' ; '.join(doc[::-1])
    return ''


def var_words(prog: fjsx.Program, name: str, n: int) -> List[int]:
    w = prog.w
    return [(prog.label(name) + i * 2 * w + w) >> (w.bit_length() - 1) for i in range(n)]


def plant(prog: fjsx.Program, decl: Dict[str, Tuple[str, int]], tag: str, mem: Dict[int, Any], fixed: Optional[Dict[str, int]] = None) -> Dict[str, Any]:
    """replace the data bits of every declared variable by fresh symbolic values (on top of mem); returns name -> term"""
    w = prog.w
    nb = w.bit_length()
    vals: Dict[str, Any] = {}
    for name, (kind, n) in decl.items():
        b = bits_per(kind)
        V = z3.BitVec(f'{name}{tag}', b * n) if not fixed or name not in fixed else z3.BitVecVal(fixed[name], b * n)
        vals[name] = V
        for i, wa in enumerate(var_words(prog, name, n)):
            cur = mem.get(wa, prog.base.get(wa, 0))
            curz = z3.BitVecVal(cur, w) if fjsx.is_c(cur) else cur
            piece = z3.Extract(b * i + b - 1, b * i, V)
            hi = z3.Extract(w - 1, nb + b, curz)
            lo = z3.Extract(nb - 1, 0, curz)
            mem[wa] = z3.simplify(z3.Concat(hi, piece, lo))
    return vals


def read_var(M: fjsx.Machine, mem: Dict[int, Any], prog: fjsx.Program, name: str, kind: str, n: int) -> Any:
    w = prog.w
    nb = w.bit_length()
    b = bits_per(kind)
    parts = []
    for wa in var_words(prog, name, n):
        v = M.rd(mem, wa)
        v = z3.BitVecVal(v, w) if fjsx.is_c(v) else v
        parts.append(z3.Extract(nb + b - 1, nb, v))
    return z3.simplify(z3.Concat(*parts[::-1])) if len(parts) > 1 else z3.simplify(parts[0])


def check_macro(spec: Spec, w: int, params: Dict[str, int]) -> Dict[str, Any]:
    """-> partial report dict"""
    common.use_repo()
    tag = f"{spec.name}/w{w}/" + ','.join(f'{k}={v}' for k, v in params.items())
    t0 = time.time()
    params0 = dict(params)
    params = dict(params, W=w)
    part: Dict[str, Any] = {'configs': 1, 'paths': 0, 'queries': {'sat': 0, 'unsat': 0, 'unknown': 0}, 'solver_s': 0.0, 'obligations': 0,
                            'discharged': 0, 'witnesses': {}, 'samples': [], 'violations': [], 'inconclusive': [], 'replayed': 0, 'harnesses': {}}
    doc = doc_of(spec)
    if spec.doc and spec.doc not in doc:
        part['inconclusive'].append(f'{tag}: the documentation of {spec.name} no longer contains {spec.doc!r} (spec drift): {doc[:160]!r}')
        return part
    try:
        src, decl = build_source(spec, params)
        prog = fjsx.Program(src, w, re.sub(r'[^A-Za-z0-9]', '_', tag))
    except Exception as e:  # noqa: BLE001
        part['inconclusive'].append(f'{tag}: the harness program does not assemble: {str(e)[:200]}')
        return part
    inputs = [z3.BitVec(f'in{i}', 1) for i in range(spec.n_in)]
    M = fjsx.Machine(prog, inputs=inputs, max_dispatch=40000, fuel=20_000_000 if params.get('once') else 2_000_000)
    s = z3.SolverFor('QF_BV')
    s.set('timeout', 180_000)

    def q(*cs: Any) -> str:
        t = time.time()
        s.push()
        s.add(*cs)
        r = str(s.check())
        model = s.model() if r == 'sat' else None
        s.pop()
        part['solver_s'] += time.time() - t
        part['queries'][r] = part['queries'].get(r, 0) + 1
        q.model = model          # type: ignore[attr-defined]
        return r

    params = dict(params)
    params['_labels'] = prog.labels
    params['_w'] = w
    exit_addr = {prog.label('X_end'): len(spec.exits)}
    for i, x in enumerate(spec.exits):
        exit_addr[prog.label(x)] = i
    var_word_set = {wa for name, (kind, n) in decl.items() for wa in var_words(prog, name, n)}

    def run_and_check(start_ip: int, mem0: Dict[int, Any], pc0: Any, vals: Dict[str, Any], phase: str,
                      first_vals: Optional[Dict[str, Any]] = None) -> List[fjsx.Halt]:
        pre = spec.pre(vals, params) if spec.pre else None
        pc = pc0 if pre is None else z3.And(pc0, pre)
        cur.update(vals=vals, first=first_vals, phase=phase)
        finals = M.run(start_ip, dict(mem0), pc, [], 0)
        want = spec.post(vals, params)
        want_exit = spec.exit(vals, params) if spec.exit else None
        want_out = spec.out(vals, params) if spec.out else []
        for h in finals:
            part['paths'] += 1
            conds: List[Tuple[Any, str]] = []
            if h.kind != 'looping' or h.ip not in exit_addr:
                conds.append((z3.BoolVal(False), f'ends at a documented exit (got {h.kind} at ip {h.ip})'))
            else:
                if want_exit is not None:
                    conds.append((want_exit == exit_addr[h.ip], 'takes the documented branch'))
                else:
                    conds.append((z3.BoolVal(exit_addr[h.ip] == len(spec.exits)), 'falls through to the next statement'))
            for name, (kind, n) in decl.items():
                got = read_var(M, h.mem, prog, name, kind, n)
                exp = want.get(name, vals[name])
                if isinstance(exp, tuple):       # (condition, value): documented only when the condition holds
                    conds.append((z3.Implies(exp[0], got == exp[1]), f'{name} holds the documented value'))
                else:
                    conds.append((got == exp, f'{name} holds the documented value' if name in want else f'{name} is unchanged'))
            alts = want_out if want_out and isinstance(want_out[0], tuple) else [(z3.BoolVal(True), want_out)]
            if len(alts) > 1:
                conds.append((z3.Or(*[c_ for c_, _ in alts]), 'output cases cover every value'))
            for c_, bits_ in alts:
                if len(h.out) != len(bits_):
                    conds.append((z3.Not(c_), f'number of output bits ({len(h.out)}, documented {len(bits_)})'))
                    continue
                eqs = []
                for a, b in zip(h.out, bits_):
                    az = z3.BitVecVal(a, 1) if fjsx.is_c(a) else a
                    bz = z3.BitVecVal(b, 1) if fjsx.is_c(b) else b
                    eqs.append(az == bz)
                if len(alts) == 1:
                    conds += [(e_, f'output bit {i_}') for i_, e_ in enumerate(eqs)]
                elif eqs:
                    conds.append((z3.Implies(c_, z3.And(*eqs)), f'the {len(bits_)} output bits'))
            for c, label in conds:
                part['obligations'] += 1
                c = z3.simplify(c) if not isinstance(c, bool) else z3.BoolVal(c)
                if z3.is_true(c):
                    part['discharged'] += 1
                    continue
                r = q(h.pc, z3.Not(c))
                if r == 'unsat':
                    part['discharged'] += 1
                elif r == 'sat':
                    m = q.model       # type: ignore[attr-defined]
                    model = {k: m.eval(v, model_completion=True).as_long() for k, v in vals.items()}
                    if first_vals:
                        model.update({f'first:{k}': m.eval(v, model_completion=True).as_long() for k, v in first_vals.items()})
                    model.update({f'in{i}': m.eval(b_, model_completion=True).as_long() for i, b_ in enumerate(inputs)})
                    part['_failed'].append({'label': f'{tag}: {phase}: {label}', 'model': model, 'phase': phase})
                else:
                    part['inconclusive'].append(f'{tag}: {phase}: solver {r} on "{label}"')
        return finals

    part['_failed'] = []
    cur: Dict[str, Any] = {}
    try:
        case_list = spec.cases(params) if spec.cases else [None]
        finals = []
        for ci, case in enumerate(case_list):
            mem0: Dict[int, Any] = {}
            vals1 = plant(prog, decl, '', mem0, case)
            fin = run_and_check(0, mem0, z3.BoolVal(True), vals1, 'first execution')
            finals += fin
            if spec.reenter and not params.get('once'):
                for k, h in enumerate(fin):
                    if h.kind != 'looping' or h.ip not in exit_addr:
                        continue
                    for cj, case2 in enumerate(case_list):
                        mem2 = dict(h.mem)
                        vals2 = plant(prog, decl, f'_again{ci}_{k}_{cj}', mem2, case2)
                        run_and_check(prog.label('L_begin'), mem2, h.pc, vals2, 're-entry of the same call site', vals1)
        part['witnesses'][f'stl:exits-reached:{len({h.ip for h in finals})}'] = 1
        # frame: words outside the declared variables that differ from the assembled image after the first execution
        dirty = set()
        for h in finals:
            for wa, v in h.mem.items():
                if wa in var_word_set:
                    continue
                orig = prog.base.get(wa, 0)
                if fjsx.is_c(v):
                    if v != orig:
                        dirty.add(wa)
                elif q(h.pc, v != orig) != 'unsat':
                    dirty.add(wa)
        lo, hi = prog.label('L_begin') >> (w.bit_length() - 1), prog.label('X_end') >> (w.bit_length() - 1)
        outside = sorted(wa for wa in dirty if not (lo <= wa < hi))
        part['samples'].append({'macro': spec.name, 'w': w, 'params': params0, 'final_states': len(finals), 'machine_steps': M.stats['steps'],
                                'dispatches': M.stats['forks'], 'joins': M.stats['joins'],
                                'words_left_modified_outside_the_call_site': [hex(x << (w.bit_length() - 1)) for x in outside][:8]})
    except Inconclusive as e:
        # the symbolic run of one path could not be finished (fuel / dispatch limits: typically a jump into garbage). take a
        # concrete member of that path and let the real interpreter decide: a run that does not behave as documented is a violation
        done = False
        if hasattr(e, 'pc') and cur and q(e.pc) == 'sat':
            m = q.model       # type: ignore[attr-defined]
            model = {k: m.eval(v_, model_completion=True).as_long() for k, v_ in cur['vals'].items()}
            if cur['first']:
                model.update({f'first:{k}': m.eval(v_, model_completion=True).as_long() for k, v_ in cur['first'].items()})
            model.update({f'in{i}': m.eval(b_, model_completion=True).as_long() for i, b_ in enumerate(inputs)})
            part['_failed'].append({'label': f"{tag}: {cur['phase']}: the run ends ({e})", 'model': model, 'phase': cur['phase']})
            done = True
        if not done:
            part['inconclusive'].append(f'{tag}: {e}')
    except RecursionError:
        part['inconclusive'].append(f'{tag}: recursion depth (nested dispatches)')
    part['solver_s'] += M.solver_s
    part['queries']['sat'] += M.stats['queries']
    # replay every counterexample concretely on the real interpreter
    viol = []
    seen = set()
    for f in part.pop('_failed'):
        key = f['label'].split(': ', 1)[1]
        if key in seen:
            continue
        seen.add(key)
        part['replayed'] += 1
        rep = replay_macro(spec, w, params0, f['model'], f['phase'])
        if rep['differs']:
            viol.append({'label': f['label'], 'signature': f"{spec.name}:{rep['what'][:70]}",
                         'replay': common.write_replay(spec.file.split('/')[0].upper()[:1] + 'STL', tag + key[:20],
                                                       {'macro': spec.name, 'w': w, 'params': params0, 'model': f['model'], 'phase': f['phase']}),
                         'detail': rep})
        else:
            part['inconclusive'].append(f"{f['label']}: counterexample did not reproduce on the real interpreter: {str(rep)[:300]}")
    part['violations'] = viol
    part['harnesses'] = {spec.name: {'paths': part['paths'], 'queries': sum(part['queries'].values()), 'wall_s': round(time.time() - t0, 2)}}
    return part


def replay_macro(spec: Spec, w: int, params: Dict[str, int], model: Dict[str, int], phase: str, timeout: int = 60) -> Dict[str, Any]:
    """replay_macro_inner in a forked child: a wrong macro may send the real interpreter into an endless run"""
    import multiprocessing as mp
    ctx = mp.get_context('fork')
    q = ctx.Queue()

    def child() -> None:
        q.put(replay_macro_inner(spec, w, params, model, phase))
    p = ctx.Process(target=child)
    p.start()
    try:
        rep = q.get(timeout=timeout)
    except Exception:  # noqa: BLE001
        rep = {'differs': True, 'what': f'the run on the real interpreter does not end within {timeout}s (documented: it reaches the statement '
                                        f'after the call)', 'operands': {k: v for k, v in model.items()}}
    p.join(2)
    if p.is_alive():
        p.kill()
    return rep


def replay_macro_inner(spec: Spec, w: int, params: Dict[str, int], model: Dict[str, int], phase: str) -> Dict[str, Any]:
    """assemble the same program with the model's operand values as initial values (and the macro executed twice for a
    re-entry counterexample), run it on the real interpreter, read the variables back through the debugger's reader"""
    common.use_repo()
    import flipjump
    from flipjump.fjm.fjm_consts import FJMVersion
    from flipjump.fjm.fjm_reader import Reader
    from flipjump.interpreter import fjm_run
    from flipjump.interpreter.io_devices.FixedIO import FixedIO
    from flipjump.utils.functions import load_debugging_labels
    import shutil
    d = common.scratch_dir('stlreplay')
    try:
        params = dict(params, W=w)
        call = spec.call.format(**params)
        decl = {v: ((spec.kinds or {}).get(v, spec.kind), eval_size(size, params)) for v, size in spec.vars.items()}
        again = phase.startswith('re-entry')
        # a re-entry counterexample: first run with the 'first' values, then reload the operands (xor-free: via *.set / mov from
        # shadow variables) and execute the same site again through a one-shot loop
        lines = [spec.init]
        if again:
            lines += ['L_begin:', call, 'X_end:', 'bit.if0 second, reload', 'E_X_end:', 'stl.loop', 'reload:', 'bit.not second']
            for v, (kind, n) in decl.items():
                lines.append(f"{'hex' if kind == 'byte' else kind}.mov {n * (2 if kind == 'byte' else 1)}, {v}, {v}_2" if kind != 'byte' else
                             '\n'.join(f'hex.mov 1, {v}+{i}*dw, {v}_2+{i}*dw' for i in range(n)))
            lines += [';L_begin']
        else:
            lines += ['L_begin:', call, 'X_end:', 'stl.loop']
        for x in spec.exits:
            lines += [f'{x}:'] + (['stl.loop'] if not again else ['bit.if0 second, reload', f'E_{x}:', 'stl.loop'])
        if spec.extra:
            lines.append(spec.extra.format(**params))
        if again:
            first = {k[6:]: v for k, v in model.items() if k.startswith('first:')}
            second = {k: v for k, v in model.items() if not k.startswith('first:') and not k.startswith('in')}
        else:
            first = {k: v for k, v in model.items() if not k.startswith('in')}
            second = {}
        for v, (kind, n) in decl.items():
            def decl_line(nm: str, val: int) -> str:
                if kind == 'byte':
                    return f'{nm}:\n' + '\n'.join(f';{(val >> (8 * i)) & 0xFF} * dw' for i in range(n))
                return f'{nm}: {kind}.vec {n}, {val}'
            lines.append(decl_line(v, first.get(v, 0)))
            if again:
                lines.append(decl_line(f'{v}_2', second.get(v, 0)))
        if again:
            lines.append('second: bit.bit 0')
        src = d / 'r.fj'
        src.write_text('\n'.join(lines) + '\n')
        out, dbg = d / 'r.fjm', d / 'r.fjd'
        flipjump.assemble([src], out, memory_width=w, fjm_version=FJMVersion(1), print_time=False, debugging_file_path=dbg)
        labels = load_debugging_labels(dbg)
        nbits = spec.n_in
        inp_bits = [bool(model.get(f'in{i}', 0)) for i in range(nbits)] * (2 if again else 1)
        from flipjump.interpreter.io_devices.IODevice import IODevice
        from flipjump.utils.exceptions import IOReadOnEOF

        class Dev(IODevice):
            def __init__(self) -> None:
                self.mem: Any = None
                self.pos = 0
                self.out: List[int] = []

            def attach_memory(self, m: Any) -> None:
                self.mem = m

            def read_bit(self) -> bool:
                if self.pos >= len(inp_bits):
                    raise IOReadOnEOF('end of the replay input')
                self.pos += 1
                return inp_bits[self.pos - 1]

            def write_bit(self, bit: bool) -> None:
                self.out.append(int(bool(bit)))

            def get_output(self, *, allow_incomplete_output: bool = False) -> bytes:
                return b''
        io = Dev()
        import os
        os.environ['FLIPJUMP_NO_NATIVE'] = '1'
        t = fjm_run.run(out, io_device=io, print_time=False, last_ops_debugging_list_length=4)
        nb = w.bit_length()
        got: Dict[str, int] = {}
        for v, (kind, n) in decl.items():
            b = bits_per(kind)
            val = 0
            for i in range(n):
                word = io.mem.read_word((labels[v] + i * 2 * w + w) // w)
                val |= ((word >> nb) & ((1 << b) - 1)) << (b * i)
            got[v] = val
        params = dict(params)
        params['_labels'] = labels
        params['_w'] = w
        in_sub = [(z3.BitVec(f'in{i}', 1), z3.BitVecVal(int(model.get(f'in{i}', 0)), 1)) for i in range(nbits)]

        def conc(e: Any) -> int:
            if isinstance(e, (int, bool)):
                return int(e)
            e = z3.simplify(z3.substitute(e, *in_sub)) if in_sub else z3.simplify(e)
            if z3.is_true(e) or z3.is_false(e):
                return int(z3.is_true(e))
            return e.as_long()

        def zv(vals: Dict[str, int]) -> Dict[str, Any]:
            return {v: z3.BitVecVal(vals.get(v, 0), bits_per(k) * n) for v, (k, n) in decl.items()}
        last = second if again else first
        pre_ok = all(conc(spec.pre(zv(x), params)) for x in ([first, second] if again else [first])) if spec.pre else True
        want = {}
        for v, e in spec.post(zv(last), params).items():
            if isinstance(e, tuple):
                want[v] = conc(e[1]) if conc(e[0]) else got[v]
            else:
                want[v] = conc(e)
        for v in decl:
            want.setdefault(v, last.get(v, 0))
        bad = [f'{v} = {got[v]:#x}, documented {want[v]:#x}' for v in decl if got[v] != want[v]]
        if spec.out:
            want_out = []
            for x in ([first, second] if again else [first]):
                o_ = spec.out(zv(x), params)
                if o_ and isinstance(o_[0], tuple):
                    o_ = next((bits_ for c_, bits_ in o_ if conc(c_)), [])
                want_out += [conc(b_) for b_ in o_]
        else:
            want_out = []
        if io.out != want_out:
            bad.append(f'output bits {io.out}, documented {want_out}')
        if str(t.termination_cause) != 'looping':
            bad.append(f'run ended with {t.termination_cause}')
        else:
            names = list(spec.exits) + ['X_end']
            want_exit = names[conc(spec.exit(zv(last), params))] if spec.exit else 'X_end'
            end_ip = list(t.last_ops_addresses)[-1] if t.last_ops_addresses else None
            pfx = 'E_' if again else ''
            if end_ip is not None and end_ip != labels[pfx + want_exit]:
                at = [n_ for n_ in names if labels.get(pfx + n_) == end_ip]
                bad.append(f'ended at {at or hex(end_ip)}, documented {want_exit}')
        if not pre_ok:
            return {'differs': False, 'what': 'the replay operands do not satisfy the documented precondition', 'operands': last}
        return {'differs': bool(bad), 'what': '; '.join(bad) or 'as documented', 'operands': (second if again else first),
                'first_operands': first if again else None, 'source': '\n'.join(lines)}
    except Exception as e:  # noqa: BLE001
        return {'differs': False, 'what': f'replay failed: {type(e).__name__}: {str(e)[:200]}'}
    finally:
        shutil.rmtree(d, ignore_errors=True)
