"""C08 - pointer, stack and call/return macros address exactly the pointed cell (fjsx: the pointer is a symbolic value ranging over
the cells of a buffer; flips and jumps through it are dispatched per feasible address; see fjv/stlcheck.py)."""
from __future__ import annotations

import json
from typing import Any, Dict, List, Optional, Tuple

import z3

from fjv import common, fjsx, stlcheck
from fjv.common import Report
from fjv.stlcheck import Spec
from fjv.checks.c09 import str_bits

NB = 3          # cells in the buffer


def addr(P: Dict[str, Any], name: str, k: int = 0) -> int:
    return P['_labels'][name] + k * 2 * P['_w']


def in_buf(V: Dict[str, Any], P: Dict[str, Any], span: int = 1, ptr: str = 'p') -> Any:
    return z3.Or(*[V[ptr] == addr(P, 'buf', k) for k in range(NB - span + 1)])


def cell(V: Dict[str, Any], k: int) -> Any:
    return z3.Extract(8 * k + 7, 8 * k, V['buf'])


def deref(V: Dict[str, Any], P: Dict[str, Any], off: int = 0, ptr: Any = None) -> Any:
    """the byte of the buffer cell `off` cells past the pointer"""
    p = V['p'] if ptr is None else ptr
    e = cell(V, NB - 1)
    for k in range(NB - 2, -1, -1):
        e = z3.If(p == addr(P, 'buf', k - off), cell(V, k), e)
    return e


def store(V: Dict[str, Any], P: Dict[str, Any], f: Any, off: int = 0, buf: Any = None, ptr: Any = None) -> Any:
    """the buffer with f(old byte) stored in the cell `off` cells past the pointer"""
    p = V['p'] if ptr is None else ptr
    b = V['buf'] if buf is None else buf
    cells = []
    for k in range(NB):
        old = z3.Extract(8 * k + 7, 8 * k, b)
        cells.append(z3.If(p == addr(P, 'buf', k - off), f(old), old))
    return z3.Concat(*cells[::-1])


def lo(x: Any) -> Any:
    return z3.Extract(3, 0, x)


def hi(x: Any) -> Any:
    return z3.Extract(7, 4, x)


def dwv(P: Dict[str, Any], k: int = 1) -> Any:
    return z3.BitVecVal((k * 2 * P['_w']) % (1 << P['_w']), P['_w'])


def cases_span(span: int) -> Any:
    return lambda P: [{'p': addr(P, 'buf', k)} for k in range(NB - span + 1)]


def cases_nth(P: Dict[str, Any]) -> List[Dict[str, int]]:
    M = (1 << P['_w']) - 1
    return [{'p': addr(P, 'buf', k), 'i': (j - k) & M} for k, j in ((0, 2), (2, 0), (1, 1), (1, 2), (2, 1))]


PV = {'p': 'W//4', 'buf': str(NB)}
PK = {'buf': 'byte'}
F1 = 'hex/pointers/'


def S(name: str, call: str, extra_vars: Dict[str, str], post: Any, doc: str, file: str, **kw: Any) -> Spec:
    vars_ = dict(extra_vars)
    vars_.update(PV)
    kw.setdefault('pre', lambda V, P: in_buf(V, P))
    if kw['pre'] is not None:
        kw.setdefault('cases', cases_span(1))
    kw.setdefault('params', [{}])
    kw.setdefault('params_thorough', [])
    return Spec(name, call, vars_, 'hex', post, doc, F1 + file, kinds=PK, **kw)


SPECS: List[Spec] = [
    S('hex.read_hex', 'hex.read_hex d, p', {'d': '1'}, lambda V, P: {'d': lo(deref(V, P))}, 'like:  dst = *ptr', 'read_pointers.fj'),
    S('hex.read_byte', 'hex.read_byte d, p', {'d': '2'}, lambda V, P: {'d': deref(V, P)}, 'like:  dst[:2] = *ptr', 'read_pointers.fj'),
    S('hex.xor_hex_from_ptr', 'hex.xor_hex_from_ptr d, p', {'d': '1'}, lambda V, P: {'d': V['d'] ^ lo(deref(V, P))}, 'like:  dst ^= *ptr', 'xor_from_pointer.fj'),
    S('hex.xor_byte_from_ptr', 'hex.xor_byte_from_ptr d, p', {'d': '2'}, lambda V, P: {'d': V['d'] ^ deref(V, P)}, 'like:  dst[:2] ^= *ptr',
      'xor_from_pointer.fj'),
    S('hex.write_hex', 'hex.write_hex p, s', {'s': '1'}, lambda V, P: {'buf': store(V, P, lambda o: z3.Concat(hi(o), V['s']))}, 'like:  *ptr = src',
      'write_pointers.fj'),
    S('hex.write_byte', 'hex.write_byte p, s', {'s': '2'}, lambda V, P: {'buf': store(V, P, lambda o: V['s'])}, 'like:  *ptr = src[:2]', 'write_pointers.fj'),
    S('hex.zero_ptr', 'hex.zero_ptr p', {}, lambda V, P: {'buf': store(V, P, lambda o: z3.BitVecVal(0, 8))}, 'like:  *ptr = 0', 'write_pointers.fj'),
    S('hex.xor_hex_to_ptr', 'hex.xor_hex_to_ptr p, s', {'s': '1'}, lambda V, P: {'buf': store(V, P, lambda o: o ^ z3.ZeroExt(4, V['s']))},
      'like:  hex.xor *ptr, hex', 'xor_to_pointer.fj'),
    S('hex.xor_byte_to_ptr', 'hex.xor_byte_to_ptr p, s', {'s': '2'}, lambda V, P: {'buf': store(V, P, lambda o: o ^ V['s'])}, 'like:  hex.xor *ptr, hex[:2]',
      'xor_to_pointer.fj'),
    S('hex.ptr_flip_dbit', 'hex.ptr_flip_dbit p', {}, lambda V, P: {'buf': store(V, P, lambda o: o ^ 1)}, 'like:  (*ptr)+dbit;', 'xor_to_pointer.fj'),
    S('hex.ptr_wflip_2nd_word', 'hex.ptr_wflip_2nd_word p, {c}*dw', {}, lambda V, P: {'buf': store(V, P, lambda o: o ^ P['c'])}, 'like:  wflip (*ptr)+w, value',
      'xor_to_pointer.fj', params=[{'c': 0xA5}, {'c': 0x01}]),
    S('hex.read_hex_and_inc', 'hex.read_hex_and_inc d, p', {'d': '1'}, lambda V, P: {'d': lo(deref(V, P)), 'p': V['p'] + dwv(P)}, 'ptr++', 'read_pointers.fj'),
    S('hex.read_byte_and_inc', 'hex.read_byte_and_inc d, p', {'d': '2'}, lambda V, P: {'d': deref(V, P), 'p': V['p'] + dwv(P)}, 'ptr++', 'read_pointers.fj'),
    S('hex.write_hex_and_inc', 'hex.write_hex_and_inc p, s', {'s': '1'},
      lambda V, P: {'buf': store(V, P, lambda o: z3.Concat(hi(o), V['s'])), 'p': V['p'] + dwv(P)}, 'ptr++', 'write_pointers.fj'),
    S('hex.write_byte_and_inc', 'hex.write_byte_and_inc p, s', {'s': '2'}, lambda V, P: {'buf': store(V, P, lambda o: V['s']), 'p': V['p'] + dwv(P)}, 'ptr++',
      'write_pointers.fj'),
    S('hex.read_hex(n)', 'hex.read_hex 2, d, p', {'d': '2'}, lambda V, P: {'d': z3.Concat(lo(deref(V, P, 1)), lo(deref(V, P)))}, 'like:  dst[:n] = *ptr[:n]',
      'read_pointers.fj', pre=lambda V, P: in_buf(V, P, 2), cases=cases_span(2)),
    S('hex.read_byte(n)', 'hex.read_byte 2, d, p', {'d': '4'}, lambda V, P: {'d': z3.Concat(deref(V, P, 1), deref(V, P))}, 'like:  dst[:2n] = *ptr[:n]',
      'read_pointers.fj', pre=lambda V, P: in_buf(V, P, 2), cases=cases_span(2)),
    S('hex.write_hex(n)', 'hex.write_hex 2, p, s', {'s': '2'},
      lambda V, P: {'buf': store(V, P, lambda o: z3.Concat(hi(o), z3.Extract(7, 4, V['s'])), 1,
                                 buf=store(V, P, lambda o: z3.Concat(hi(o), z3.Extract(3, 0, V['s']))))}, 'like:  *ptr[:n] = src[:n]',
      'write_pointers.fj', pre=lambda V, P: in_buf(V, P, 2), cases=cases_span(2)),
    S('hex.write_byte(n)', 'hex.write_byte 2, p, s', {'s': '4'},
      lambda V, P: {'buf': store(V, P, lambda o: z3.Extract(15, 8, V['s']), 1, buf=store(V, P, lambda o: z3.Extract(7, 0, V['s'])))},
      'like:  *ptr[:n] = src[:2n]', 'write_pointers.fj', pre=lambda V, P: in_buf(V, P, 2), cases=cases_span(2)),
    S('hex.xor_hex_to_ptr(n)', 'hex.xor_hex_to_ptr 2, p, s', {'s': '2'},
      lambda V, P: {'buf': store(V, P, lambda o: o ^ z3.ZeroExt(4, z3.Extract(7, 4, V['s'])), 1,
                                 buf=store(V, P, lambda o: o ^ z3.ZeroExt(4, z3.Extract(3, 0, V['s']))))}, 'like:  hex.xor *ptr[:n], hex[:n]',
      'xor_to_pointer.fj', pre=lambda V, P: in_buf(V, P, 2), cases=cases_span(2)),
    # pointer arithmetic: any pointer value
    S('hex.ptr_inc', 'hex.ptr_inc p', {}, lambda V, P: {'p': V['p'] + dwv(P)}, 'ptr[:w/4] += 2w', 'pointer_arithmetics.fj', pre=None),
    S('hex.ptr_dec', 'hex.ptr_dec p', {}, lambda V, P: {'p': V['p'] - dwv(P)}, 'ptr[:w/4] -= 2w', 'pointer_arithmetics.fj', pre=None),
    S('hex.ptr_add', 'hex.ptr_add p, {c}', {}, lambda V, P: {'p': V['p'] + dwv(P, P['c'])}, 'ptr[:w/4] += value * 2w', 'pointer_arithmetics.fj', pre=None,
      params=[{'c': 3}, {'c': 300}]),
    S('hex.ptr_sub', 'hex.ptr_sub p, {c}', {}, lambda V, P: {'p': V['p'] - dwv(P, P['c'])}, 'ptr[:w/4] -= value * 2w', 'pointer_arithmetics.fj', pre=None,
      params=[{'c': 3}, {'c': 300}]),
    S('hex.ptr_index', 'hex.ptr_index d, p, i', {'d': 'W//4', 'i': 'W//4'}, lambda V, P: {'d': V['p'] + V['i'] * dwv(P)}, 'dst[:w/4] = ptr + index*2w',
      'pointer_arithmetics.fj', pre=lambda V, P: z3.And(V['i'] >= -128, V['i'] < 128), cases=cases_span(1), params=[{'once': 1}], params_thorough=[{}]),
    S('hex.read_nth_byte', 'hex.read_nth_byte d, p, i', {'d': '2', 'i': 'W//4'}, lambda V, P: {'d': deref(V, P, ptr=V['p'] + V['i'] * dwv(P))},
      'dst[:2] = *(ptr + index*2w)', 'read_pointers.fj', pre=lambda V, P: z3.And(in_buf(V, P), z3.Or(*[V['p'] + V['i'] * dwv(P) == addr(P, 'buf', k) for k in range(NB)])), cases=cases_nth),
    S('hex.write_nth_hex', 'hex.write_nth_hex p, i, s', {'s': '1', 'i': 'W//4'},
      lambda V, P: {'buf': store(V, P, lambda o: z3.Concat(hi(o), V['s']), ptr=V['p'] + V['i'] * dwv(P))},
      '*(ptr + index*2w) = src', 'write_pointers.fj', pre=lambda V, P: z3.And(in_buf(V, P), z3.Or(*[V['p'] + V['i'] * dwv(P) == addr(P, 'buf', k) for k in range(NB)])), cases=cases_nth),
    # hex-granularity and byte-granularity accesses mixed on one cell (they share the scratch byte hex.pointers.read_byte)
    S('mixed: write_byte, read_hex, read_byte', 'hex.write_byte p, s\nhex.read_hex d, p\nhex.read_byte e, p', {'s': '2', 'd': '1', 'e': '2'},
      lambda V, P: {'buf': store(V, P, lambda o: V['s']), 'd': lo(V['s']), 'e': V['s']}, '', 'read_pointers.fj'),
    S('mixed: write_hex over a byte, read_byte, xor_byte_to_ptr', 'hex.write_hex p, s\nhex.read_byte e, p\nhex.xor_byte_to_ptr p, x', {'s': '1', 'e': '2', 'x': '2'},
      lambda V, P: {'buf': store(V, P, lambda o: z3.Concat(hi(o), V['s']) ^ V['x']), 'e': z3.Concat(hi(deref(V, P)), V['s'])}, '', 'write_pointers.fj'),
    S('mixed: xor_hex_from_ptr then write_byte', 'hex.xor_hex_from_ptr d, p\nhex.write_byte p, s\nhex.read_byte e, p', {'d': '1', 's': '2', 'e': '2'},
      lambda V, P: {'buf': store(V, P, lambda o: V['s']), 'd': V['d'] ^ lo(deref(V, P)), 'e': V['s']}, '', 'xor_from_pointer.fj'),
    S('hex.ptr_jump', 'hex.ptr_jump p', {}, lambda V, P: {}, 'Jump to the address the pointer points to', 'basic_pointers.fj',
      pre=lambda V, P: z3.Or(V['p'] == P['_labels']['X_a'], V['p'] == P['_labels']['X_b']), exits=['X_a', 'X_b'],
      cases=lambda P: [{'p': P['_labels']['X_a']}, {'p': P['_labels']['X_b']}],
      exit=lambda V, P: z3.If(V['p'] == P['_labels']['X_a'], 0, 1)),
]

SP0 = 'hex.pointers.stack'
FUNCS = '''F_func:
stl.output 'F'
stl.return
G_func:
stl.output 'G'
stl.call F_func
stl.output 'g'
stl.return
H_func:
stl.output 'H'
hex.push_byte hb
stl.call G_func
hex.pop_byte hb
stl.output 'h'
stl.return
hb: hex.vec 2, 0x3c
FF_func:
stl.output 'f'
stl.fcall FG_func, r2
stl.fret r1
FG_func:
stl.output 'k'
stl.fret r2
r1: 0;0
r2: 0;0'''


def T(name: str, call: str, vars_: Dict[str, str], post: Any, out: str = '', **kw: Any) -> Spec:
    vars_ = dict(vars_)
    vars_['sp_after'] = 'W//4'
    full_post = (lambda V, P: dict(post(V, P), sp_after=z3.BitVecVal(P['_labels'][SP0] + kw_sp.get(name, 0) * 2 * P['_w'], P['_w'])))
    return Spec(name, call + '\nstl.get_sp sp_after', vars_, 'hex', full_post, '', 'ptrlib.fj', [{}], [], out=(lambda V, P: str_bits(out)) if out else None,
                extra=FUNCS, **kw)


kw_sp: Dict[str, int] = {}
STACK: List[Spec] = [
    T('stack: push_hex, pop_hex', 'hex.push_hex a\nhex.pop_hex b', {'a': '1', 'b': '1'}, lambda V, P: {'b': V['a']}),
    T('stack: push_byte, pop_byte', 'hex.push_byte a\nhex.pop_byte b', {'a': '2', 'b': '2'}, lambda V, P: {'b': V['a']}),
    T('stack: push 3, pop 3', 'hex.push 3, a\nhex.pop 3, b', {'a': '3', 'b': '3'}, lambda V, P: {'b': V['a']}),
    T('stack: LIFO order of two bytes and a hex', 'hex.push_byte a\nhex.push_hex c\nhex.push_byte b\nhex.pop_byte x\nhex.pop_hex z\nhex.pop_byte y',
      {'a': '2', 'b': '2', 'c': '1', 'x': '2', 'y': '2', 'z': '1'}, lambda V, P: {'x': V['b'], 'y': V['a'], 'z': V['c']}),
    T('stack: byte over a used cell, then call', 'hex.push_byte a\nhex.pop_byte b\nstl.call F_func\nstl.output \'R\'', {'a': '2', 'b': '2'},
      lambda V, P: {'b': V['a']}, out='FR'),
    T('stack: call with a pushed parameter', 'hex.push_byte a\nstl.call F_func, 1\nstl.output \'R\'\nstl.call G_func\nstl.output \'S\'', {'a': '2'},
      lambda V, P: {}, out='FRGFgS'),
    T('stack: nested call/return three deep with data on the stack', 'hex.push_hex a\nstl.call H_func\nstl.output \'R\'\nhex.pop_hex b', {'a': '1', 'b': '1'},
      lambda V, P: {'b': V['a']}, out='HGFghR'),
    T('stack: nested fcall/fret', 'stl.fcall FF_func, r1\nstl.output \'R\'\nstl.fcall FG_func, r2\nstl.output \'S\'', {}, lambda V, P: {}, out='fkRkS'),
    T('stack: a hex popped from a cell that holds a byte, then bytes', 'hex.push_byte a\nhex.pop_hex z\nhex.push_byte b\nhex.pop_byte y\nhex.push_hex c\nhex.pop_byte x',
      {'a': '2', 'b': '2', 'c': '1', 'x': '2', 'y': '2', 'z': '1'},
      lambda V, P: {'z': lo(V['a']), 'y': V['b'], 'x': z3.Concat(hi(V['b']), V['c'])}),
    T('stack: sp_add / sp_sub', 'hex.sp_add 3\nhex.sp_sub 2\nhex.sp_inc\nhex.sp_dec\nhex.sp_dec', {}, lambda V, P: {}),
]
SPECS += STACK


def _one(job: Tuple[int, int, Dict[str, int]]) -> Dict[str, Any]:
    i, w, p = job
    return stlcheck.check_macro(SPECS[i], w, p)


def replay(path: str) -> int:
    case = json.loads(open(path).read())
    sp = next(s for s in SPECS if s.name == case['macro'])
    rep = stlcheck.replay_macro(sp, case['w'], case['params'], case['model'], case['phase'])
    print(json.dumps(rep, indent=1, default=str))
    return 1 if rep['differs'] else 0


def run(report: Report, tier: str, only: Optional[str] = None) -> None:
    from fjv.checks.c04 import jobs
    report.functions += [{'name': f'{sp.name} ({sp.call})', 'file': 'flipjump/stl/' + sp.file, 'doc': sp.doc} for sp in SPECS]
    report.stub('none: real assembler + symbolic FlipJump machine fjsx; a flip or jump through a symbolic pointer is dispatched per feasible address')
    report.bounds.update({'macros': [sp.name for sp in SPECS], 'buffer': f'{NB} cells of 8 symbolic data bits; the pointer is any of their addresses '
                          '(symbolic); the second execution of every call site uses a fresh pointer and fresh cell values, so every ordered pair '
                          'of addresses is covered', 'widths': 'quick: w=64; thorough: w in {32, 64}',
                          'stack': 'sequences listed in STACK; pushed values symbolic; each is executed twice (stack cells keep the residue of the first run)'})
    report.outside += ['bit-namespace pointers (bit/pointers.fj)', 'hex.ptr_flip / ptr_wflip (they change the FLIP word of the target cell, which the '
                       'buffer model does not observe)', 'buffers of more than 3 cells, vector forms with n > 2', 'stack overflow / return on an empty stack',
                       'call trees other than the listed ones (the listed ones nest three deep and interleave data pushes)']
    report.assumptions += ['fjsx machine = pyspec on aligned ops', 'spec table transcribed from the doc comments', 'z3 5.1.0']
    js = jobs(SPECS, tier, only)
    common.run_pool(_one, js, report)
    fjsx.cleanup()
