"""C01 - every engine executes the FlipJump machine semantics exactly.

Python engines (pysym): the real fjm_run._run_featured / _run_fast are executed on a fully symbolic state
(arbitrary memory content, arbitrary validity predicate, symbolic lazy-zero ranges, symbolic input) for K ops
and every observable is compared with fjspec iterated K times.
Native engine (llsx): see fjv/llsx - one op of every C loop clone from an arbitrary state.
"""
from __future__ import annotations

import json
import time
from typing import Any, Dict, List, Optional, Tuple

import z3

from fjv import common, pyspec
from fjv.common import Report, Inconclusive
from fjv.pysym import Engine, assume, sym_int, to_z3
from fjv import pyengine


# ---------------------------------------------------------------------------------- python engines

def py_config(cfg: Tuple[int, str, str]) -> Dict[str, Any]:
    """one (width, engine, mode) configuration -> partial report dict"""
    common.use_repo()
    w, eng, mode = cfg
    from flipjump.utils.exceptions import IOReadOnEOF
    pyengine.install_format_stubs()
    W = 2 * w + 16
    K = {'first': 1, 'tramp': 2, 'two': 2, 'three': 3}[mode]
    nz = {'first': 2, 'tramp': 0, 'two': 1, 'three': 0}[mode]
    E = Engine(W, timeout_ms=180_000)
    tag = f'py/{eng}/w{w}/{mode}'
    samples: List[Any] = []
    ww = w.bit_length() - 1

    def body() -> Any:
        st = pyengine.PyState(w, W, nz, K)
        if mode == 'tramp':
            # op 0 is a trampoline to an arbitrary ip: its words are present, it does no IO,
            # so that op 1 is "one op at an arbitrary ip from an arbitrary state"
            P, M = st.P0, st.M0
            bv = lambda v: z3.BitVecVal(v, W)  # noqa: E731
            f0 = z3.ZeroExt(W - w, z3.Select(M, bv(0)))
            fw0 = z3.LShR(f0, ww)
            x0 = z3.ZeroExt(W - w, z3.Select(M, bv(1)))
            assume(z3.And(z3.Select(P, bv(0)), z3.Select(P, bv(1)), f0 != 2 * w, f0 != 2 * w + 1,
                          fw0 != 0, fw0 != 1, z3.Select(P, fw0), z3.UGE(x0, bv(2 * w))))
        io = pyengine.SymIO(st.avail, st.bits, IOReadOnEOF)
        res = pyengine.run_loop(eng, st, K, io)
        spec = pyengine.run_spec(st, K)
        pyengine.compare(E, st, res, spec, tag)
        # witness classes (vacuity guard), on the last op
        if len(spec['recs']) == K:
            r = spec['recs'][-1]
            ipl = to_z3(r['ip'])
            E.witness('py:unaligned-ip', (ipl & (w - 1)) != 0)
            E.witness({pyspec.LOOPING: 'py:halt-looping', pyspec.NULLIP: 'py:halt-null-ip', pyspec.MEMERR: 'py:memory-error',
                       pyspec.CONTINUE: 'py:continues', pyspec.EOF: 'py:end-of-input'}[r['status']], True)
            if 'f' in r:
                f = to_z3(r['f'])
                E.witness('py:output', z3.Or(f == 2 * w, f == 2 * w + 1))
                if 'j' in r:
                    E.witness('py:flip-changes-own-jump-word', z3.LShR(f, ww) == z3.LShR(ipl + w, ww))
                    E.witness('py:lazy-zero-word-read', z3.Not(z3.Select(st.P0, z3.LShR(ipl, ww))))
                    if r['status'] == pyspec.CONTINUE:
                        E.witness('py:self-jump-but-self-flip', to_z3(r['j']) == ipl)
            if spec['reads'] and r['status'] != pyspec.EOF:
                E.witness('py:input-bit-consumed', True)
        if len(samples) < 3:
            samples.append({'config': tag, 'path_decisions': len(E.decisions), 'result_kind': res['kind'], 'spec_status': spec['status'],
                            'outputs': len(res['out']), 'reads': res['reads']})
        return res['kind']

    t0 = time.time()
    incon: List[str] = []
    try:
        E.explore(body)
    except Inconclusive as e:
        incon.append(f'{tag}: {e}')
    violations = []
    for f in E.failed:
        violations.append(py_counterexample(cfg, f))
    part = {'configs': 1, **E.stats(), 'samples': samples, 'violations': [v for v in violations if v.get('reproduced')],
            'inconclusive': incon + [f"{tag}: counterexample for '{v['label']}' did not reproduce on the real code"
                                     for v in violations if not v.get('reproduced')],
            'replayed': len(violations),
            'harnesses': {tag: {'paths': E.paths, 'queries': sum(E.q.values()), 'solver_s': round(E.solver_s, 2),
                                'wall_s': round(time.time() - t0, 2)}}}
    return part


def py_counterexample(cfg: Tuple[int, str, str], f: Dict[str, Any]) -> Dict[str, Any]:
    """turn a failed obligation's model into a concrete image and replay it on the real loop."""
    w, eng, mode = cfg
    m = f['model']
    case = {'w': w, 'engine': eng, 'K': {'first': 1, 'tramp': 2, 'two': 2, 'three': 3}[mode],
            'label': f['label'], 'raw_model': m}
    try:
        case.update(f['detail'])
        rep = replay_case(case)
    except Exception as e:  # noqa: BLE001
        return {'label': f['label'], 'reproduced': False, 'detail': f'replay failed: {e!r}'}
    path = common.write_replay('C01', f"py_{eng}_w{w}_{mode}_{f['label']}", case)
    sig = f"py:{eng}:w{w}:{f['label'].split(': ')[-1]}"
    return {'label': f['label'], 'reproduced': rep['differs'], 'replay': path, 'signature': sig, 'detail': rep}


def replay_case(case: Dict[str, Any]) -> Dict[str, Any]:
    """run the REAL loop on plain ints and the spec concretely; report whether they differ."""
    common.use_repo()
    from flipjump.fjm.fjm_reader import Reader, GarbageHandling
    from flipjump.interpreter import fjm_run
    from flipjump.utils.classes import RunStatistics
    from flipjump.utils.exceptions import FlipJumpRuntimeMemoryException, IOReadOnEOF
    w, K, eng = case['w'], case['K'], case['engine']
    words = {int(k): v for k, v in case['words'].items()}
    mkmem = lambda: dict(words)  # noqa: E731

    class IO:
        def __init__(self) -> None:
            self.out: List[bool] = []
            self.reads = 0

        def write_bit(self, b: bool) -> None:
            self.out.append(bool(b))

        def read_bit(self) -> bool:
            i = self.reads
            self.reads += 1
            if i >= len(case['inputs']) or not case['inputs'][i][0]:
                raise IOReadOnEOF('eof')
            return case['inputs'][i][1]

    r = Reader.__new__(Reader)
    r.garbage_handling, r.memory_width = GarbageHandling.Stop, w
    r.memory = mkmem()
    r.zeros_boundaries = [tuple(z) for z in case['zero_ranges']]
    r.memory_segments = []
    stats = RunStatistics(w, None)
    ring = pyengine.Ring(K)
    stats.last_ops_addresses = ring  # type: ignore[assignment]
    io = IO()
    got: Dict[str, Any] = {}
    try:
        t = fjm_run._run_featured(r, io, stats, None, False) if eng == 'featured' else fjm_run._run_fast(r, io, stats)
        got['status'] = int(t.termination_cause)
    except FlipJumpRuntimeMemoryException as e:
        got['status'], got['fault'] = pyspec.MEMERR, e.memory_address
    except pyengine.StopAfterK as s:
        got['status'], got['next_ip'] = pyspec.CONTINUE, s.next_ip
    got.update(ops=stats.op_counter, out=io.out, reads=io.reads, ips=list(ring.items))
    # the spec, concretely
    bits = []
    for av, b in case['inputs']:
        if not av:
            break
        bits.append(b)
    want = pyspec.run_concrete(w, words, [tuple(z) for z in case['zero_ranges']], bits, K)
    exp = {'status': want['status'], 'ops': want['ops'], 'out': want['out'], 'reads': want['reads'],
           'ips': want['started']}
    if want['status'] == pyspec.MEMERR:
        exp['fault'] = want['fault']
    if want['status'] == pyspec.CONTINUE:
        exp['next_ip'] = want['ip']
    differs = any(got.get(k) != exp.get(k) for k in set(got) | set(exp))
    if not differs:
        for k in set(want['words']) | set(r.memory):
            a, b = r.memory.get(k), want['words'].get(k)
            if (a or 0) != (b or 0):
                differs = True
                got['mem_diff'] = [k, a, b]
                break
    return {'differs': differs, 'real': got, 'spec': exp}


def replay(path: str) -> int:
    case = json.loads(open(path).read())
    if case.get('native'):
        from fjv.llsx import native_replay
        return native_replay.replay(case)
    rep = replay_case(case)
    print(json.dumps(rep, indent=1, default=str))
    return 1 if rep['differs'] else 0


# ---------------------------------------------------------------------------------- fjspec validation

def validate_spec(report: Report) -> None:
    """run fjspec concretely on the repo's own small programs and compare with the real featured loop's trace."""
    from fjv import programs
    n = programs.validate_spec(report)
    report.validation_runs += n


def prove_lemmas(report: Report) -> None:
    """the two bit-vector facts that justify pysym's single-bit rewrite, proved for every width used"""
    from fjv.pysym import bit_lemmas
    for w in (8, 16, 32, 64):
        for lemma, label in bit_lemmas(w):
            s = z3.Solver()
            s.set('timeout', 60_000)
            s.add(z3.Not(lemma))
            t = time.time()
            r = str(s.check())
            report.solver_s += time.time() - t
            report.queries[r] = report.queries.get(r, 0) + 1
            report.obligations += 1
            if r == 'unsat':
                report.discharged += 1
            else:
                report.inconclusive.append(f'{label}: {r}')


# ---------------------------------------------------------------------------------- entry

def run(report: Report, tier: str, only: Optional[str] = None) -> None:
    from flipjump.interpreter import fjm_run
    from flipjump.fjm.fjm_reader import Reader
    from flipjump.utils.classes import RunStatistics
    report.encode(fjm_run._run_featured, fjm_run._run_fast, fjm_run._handle_input, fjm_run._handle_output,
                  Reader.get_word, Reader._get_memory_word, Reader.read_bit, Reader.write_bit, Reader._set_memory_word,
                  Reader._bit_address_decompose, RunStatistics.register_op, RunStatistics.register_op_address)
    pyengine.install_format_stubs(report)
    report.stub('IO device -> SymIO: read_bit returns a fresh symbolic bit or raises IOReadOnEOF (arbitrary), write_bit records',
                'last-ops container -> Ring raising StopAfterK on call K+1 (cuts the while-True loops; nothing inside is skipped)',
                'time.time (pause timer, run time) left real: no observable depends on it')
    report.bounds.update({'python_engines': 'K ops from ip=0: K=1 fully symbolic state (2 lazy-zero ranges); K=2 with op 0 '
                          'restricted to a trampoline (words 0,1 present, no IO, flips a present word other than 0/1, jumps '
                          'to an arbitrary ip >= 2w) so that op 1 = one op at an arbitrary ip from an arbitrary state; '
                          'thorough adds K=2 unrestricted at every width and K=3 at w=8',
                          'widths': [8, 16, 32, 64], 'int_encoding': 'bit-vectors of 2w+16 bits with interval overflow guard'})
    report.outside += ['GarbageHandling modes other than Stop', 'show_trace printing', 'run-time / paused-time floats']
    report.assumptions += ['pyspec.step is the machine definition (validated against the featured loop on the repo\'s own programs)',
                           'z3 5.1.0', 'CPython 3.12 semantics of the proxies (differentially validated against int)']
    report.require_witnesses(*[f'py:{n}' for n in (
        'unaligned-ip', 'output', 'input-bit-consumed', 'end-of-input', 'halt-looping', 'halt-null-ip', 'memory-error',
        'continues', 'flip-changes-own-jump-word', 'self-jump-but-self-flip', 'lazy-zero-word-read')])
    validate_spec(report)
    prove_lemmas(report)
    cfgs: List[Tuple[int, str, str]] = []
    for w in (8, 16, 32, 64):
        for eng in ('featured', 'fast'):
            cfgs.append((w, eng, 'first'))
            cfgs.append((w, eng, 'tramp'))
            if tier == 'thorough':
                cfgs.append((w, eng, 'two'))
    if tier == 'thorough':
        cfgs.append((8, 'fast', 'three'))
    if only:
        cfgs = [c for c in cfgs if only in f'py/{c[1]}/w{c[0]}/{c[2]}']
    # longest first
    order = {'three': 0, 'two': 1, 'tramp': 2, 'first': 3}
    cfgs.sort(key=lambda c: (order[c[2]], c[1] != 'featured'))
    common.run_pool(py_config, cfgs, report)
    from fjv.llsx import c01_native
    c01_native.run(report, tier, only, prop='C01')
