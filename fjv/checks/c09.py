"""C09 - library input / print / cast macros are exact inverses of the byte encoding (fjsx with the IO op: symbolic input bits,
recorded output bits; see fjv/stlcheck.py)."""
from __future__ import annotations

import json
from typing import Any, Dict, List, Optional, Tuple

import z3

from fjv import common, fjsx, stlcheck
from fjv.common import Report
from fjv.stlcheck import Spec


def bits_of(v: Any, lo: int, n: int) -> List[Any]:
    return [z3.Extract(lo + i, lo + i, v) for i in range(n)]


def byte_bits(b: Any) -> List[Any]:
    return [z3.Extract(i, i, b) for i in range(8)]


def in_val(n_bits: int) -> Any:
    bits = [z3.BitVec(f'in{i}', 1) for i in range(n_bits)]
    return z3.Concat(*bits[::-1]) if n_bits > 1 else bits[0]


def ascii_hex(d: Any, upper: bool) -> Any:
    d8 = z3.ZeroExt(4, d)
    return z3.If(z3.ULT(d8, 10), d8 + 48, d8 + ((65 if upper else 97) - 10))


def from_ascii_hex(c: Any) -> Tuple[Any, Any]:
    """(valid, 4-bit value) of an ascii byte as a hex digit 0-9 a-f A-F"""
    dig = z3.And(z3.UGE(c, 48), z3.ULE(c, 57))
    lo = z3.And(z3.UGE(c, 97), z3.ULE(c, 102))
    up = z3.And(z3.UGE(c, 65), z3.ULE(c, 70))
    v = z3.If(dig, c - 48, z3.If(lo, c - 87, c - 55))
    return z3.Or(dig, lo, up), z3.Extract(3, 0, v)


def char_bits(c: int) -> List[Any]:
    return [(c >> i) & 1 for i in range(8)]


def str_bits(t: str) -> List[Any]:
    return [b for ch in t for b in char_bits(ord(ch))]


def numeral_alts(v: Any, base: int, prefix: str = '', upper: bool = True, guard: Any = True) -> List[Tuple[Any, List[Any]]]:
    """[(condition on v, output bits)] - one alternative per number of significant digits, no leading zeros"""
    nb = v.size()
    x = z3.ZeroExt(4, v)        # room for the base constants
    maxd = 1
    while base ** maxd < (1 << nb):
        maxd += 1
    alts = []
    for d in range(1, maxd + 1):
        lo = 0 if d == 1 else base ** (d - 1)
        cond = z3.And(guard, z3.UGE(x, lo), z3.ULT(x, base ** d)) if base ** d < (1 << (nb + 4)) else z3.And(guard, z3.UGE(x, lo))
        bits = str_bits(prefix)
        for k in range(d - 1, -1, -1):
            dig = z3.URem(z3.UDiv(x, base ** k), base)
            dig4 = z3.Extract(3, 0, dig)
            bits += byte_bits(ascii_hex(dig4, upper))
        alts.append((cond, bits))
    return alts


def signed_alts(v: Any, base: int, prefix: str = '', upper: bool = True) -> List[Tuple[Any, List[Any]]]:
    return numeral_alts(v, base, prefix, upper, guard=(v >= 0)) + numeral_alts(-v, base, '-' + prefix, upper, guard=(v < 0))


def in_bytes(k: int) -> List[Any]:
    v = in_val(8 * k)
    return [z3.Extract(8 * j + 7, 8 * j, v) for j in range(k)]


def dec_parse(cs: List[Any], nbits: int, signed: bool) -> Tuple[Any, Any, Any]:
    """(value mod 2^nbits, stop byte, a stop byte exists within cs) of the documented decimal input format"""
    def isd(c: Any) -> Any:
        return z3.And(z3.UGE(c, 48), z3.ULE(c, 57))

    def rec(i: int, acc: Any) -> Tuple[Any, Any, Any]:
        if i == len(cs):
            return acc, cs[-1], z3.BoolVal(False)
        d = z3.ZeroExt(nbits - 8, cs[i] - 48) if nbits > 8 else z3.Extract(nbits - 1, 0, cs[i] - 48)
        a, b, c = rec(i + 1, acc * 10 + d)
        return z3.If(isd(cs[i]), a, acc), z3.If(isd(cs[i]), b, cs[i]), z3.If(isd(cs[i]), c, z3.BoolVal(True))
    zero = z3.BitVecVal(0, nbits)
    if not signed:
        return rec(0, zero)
    pa, pb, pc = rec(0, zero)
    na, nb_, nc = rec(1, zero)
    minus = cs[0] == 45
    return z3.If(minus, -na, pa), z3.If(minus, nb_, pb), z3.If(minus, nc, pc)


def terminator_ok(c: Any) -> Any:
    return z3.Or(c == 0, c == 10)


H, Bf = 'hex', 'bit'
SPECS: List[Spec] = [
    Spec('hex.output', 'hex.output a', {'a': '1'}, H, lambda V, P: {}, 'output 4 bits from hex', 'hex/output.fj', [{}], [],
         out=lambda V, P: bits_of(V['a'], 0, 4)),
    Spec('hex.print', 'hex.print a', {'a': '2'}, H, lambda V, P: {}, 'output 8 bits from x[:2]', 'hex/output.fj', [{}], [],
         out=lambda V, P: bits_of(V['a'], 0, 8)),
    Spec('hex.print(n)', 'hex.print {n}, a', {'a': '2*n'}, H, lambda V, P: {}, 'output n bytes from x[:2n]', 'hex/output.fj', [{'n': 2}], [{'n': 3}],
         out=lambda V, P: bits_of(V['a'], 0, 8 * P['n'])),
    Spec('hex.print_as_digit', 'hex.print_as_digit {n}, a, {u}', {'a': 'n'}, H, lambda V, P: {}, 'prints the ascii of the hexadecimal representation',
         'hex/output.fj', [{'n': 1, 'u': 0}, {'n': 2, 'u': 1}], [{'n': 3, 'u': 0}],
         out=lambda V, P: [b for i in range(P['n'] - 1, -1, -1) for b in byte_bits(ascii_hex(z3.Extract(4 * i + 3, 4 * i, V['a']), bool(P['u'])))]),
    Spec('hex.input_hex', 'hex.input_hex a', {'a': '1'}, H, lambda V, P: {'a': in_val(4)}, 'hex := input(4bits)', 'hex/input.fj', [{}], [], n_in=4),
    Spec('hex.input', 'hex.input a', {'a': '2'}, H, lambda V, P: {'a': in_val(8)}, 'byte[:2] = input(8bits)', 'hex/input.fj', [{}], [], n_in=8),
    Spec('hex.input(n)', 'hex.input {n}, a', {'a': '2*n'}, H, lambda V, P: {'a': in_val(8 * P['n'])}, 'bytes[:2n] = input(8n-bits)', 'hex/input.fj',
         [{'n': 2}], [{'n': 3}], n_in=24),
    Spec('hex.input_as_hex', 'hex.input_as_hex a, X_err', {'a': '1'}, H,
         lambda V, P: {'a': from_ascii_hex(in_val(8))}, 'hex = hex_from_ascii(input(1byte))',
         'hex/input.fj', [{}], [], n_in=8, exits=['X_err'], exit=lambda V, P: z3.If(from_ascii_hex(in_val(8))[0], 1, 0), reenter=False),
    Spec('bit.output', 'bit.output a', {'a': '1'}, Bf, lambda V, P: {}, "outputs the bit 'x'", 'bit/output.fj', [{}], [], out=lambda V, P: [V['a']],
         init='stl.startup', widths=(16, 64)),
    Spec('bit.print', 'bit.print a', {'a': '8'}, Bf, lambda V, P: {}, 'outputs a byte from x[:8]', 'bit/output.fj', [{}], [],
         out=lambda V, P: bits_of(V['a'], 0, 8), init='stl.startup', widths=(16, 64)),
    Spec('bit.print(n)', 'bit.print {n}, a', {'a': '8*n'}, Bf, lambda V, P: {}, 'outputs n bytes from x[:8n]', 'bit/output.fj', [{'n': 2}], [],
         out=lambda V, P: bits_of(V['a'], 0, 8 * P['n']), init='stl.startup', widths=(16, 64)),
    Spec('bit.print_as_digit', 'bit.print_as_digit {n}, a', {'a': 'n'}, Bf, lambda V, P: {}, "prints x[:n] as n ascii-characters ('0's and '1's, msb first)",
         'bit/output.fj', [{'n': 1}, {'n': 3}], [], out=lambda V, P: [b for i in range(P['n'] - 1, -1, -1) for b in byte_bits(z3.ZeroExt(7, z3.Extract(i, i, V['a'])) + 48)],
         init='stl.startup', widths=(16, 64)),
    Spec('bit.input_bit', 'bit.input_bit a', {'a': '1'}, Bf, lambda V, P: {'a': in_val(1)}, 'input one bit', 'bit/input.fj', [{}], [], n_in=1,
         init='stl.startup', widths=(16, 64)),
    Spec('bit.input', 'bit.input a', {'a': '8'}, Bf, lambda V, P: {'a': in_val(8)}, 'input one byte into dst[:8]', 'bit/input.fj', [{}], [], n_in=8,
         init='stl.startup', widths=(16, 64)),
    Spec('bit.input(n)', 'bit.input {n}, a', {'a': '8*n'}, Bf, lambda V, P: {'a': z3.Concat(*[z3.Extract(8 * j + 7, 8 * j, in_val(8 * P['n'])) for j in range(P['n'])])}, 'big endian number into dst[:8n]', 'bit/input.fj',
         [{'n': 2}], [], n_in=16, init='stl.startup', widths=(16, 64)),
    Spec('stl.bit2hex', 'stl.bit2hex {n}, h, b', {'h': '(n+3)//4', 'b': 'n'}, H, lambda V, P: {'h': z3.ZeroExt(4 * ((P['n'] + 3) // 4) - P['n'], V['b'])},
         'hex[:(n+3)/4] = bit[:n]', 'casting.fj', [{'n': 4}, {'n': 5}, {'n': 1}], [{'n': 8}], kinds={'b': 'bit'}),
    Spec('stl.hex2bit', 'stl.hex2bit {n}, b, h', {'b': '4*n', 'h': 'n'}, H, lambda V, P: {'b': V['h']}, 'bit[:4n] = hex[:n]', 'casting.fj',
         [{'n': 1}, {'n': 2}], [{'n': 3}], kinds={'b': 'bit'}),
    Spec('bit.hex2ascii', 'bit.hex2ascii a, h', {'a': '8', 'h': '4'}, Bf, lambda V, P: {'a': ascii_hex(V['h'], True)},
         'ascii := the ascii representation of the value of hex', 'bit/casting.fj', [{}], [], init='stl.startup', widths=(16, 64)),
    Spec('bit.dec2ascii', 'bit.dec2ascii a, d', {'a': '8', 'd': '4'}, Bf, lambda V, P: {'a': z3.ZeroExt(4, V['d']) + 48},
         'ascii := the ascii representation of the value of dec', 'bit/casting.fj', [{}], [], init='stl.startup', widths=(16, 64),
         pre=lambda V, P: z3.ULT(V['d'], 10)),
    Spec('bit.bin2ascii', 'bit.bin2ascii a, b', {'a': '8', 'b': '1'}, Bf, lambda V, P: {'a': z3.ZeroExt(7, V['b']) + 48},
         'ascii := the ascii representation of the value of bin', 'bit/casting.fj', [{}], [], init='stl.startup', widths=(16, 64)),
    Spec('hex.print_uint', 'hex.print_uint {n}, a, {x}, {u}', {'a': 'n'}, H, lambda V, P: {}, 'print the unsigned x[:n], without leading zeros', 'hex/output.fj',
         [{'n': 2, 'x': 0, 'u': 0, 'once': 1}, {'n': 1, 'x': 1, 'u': 1}], [{'n': 3, 'x': 1, 'u': 0, 'once': 1}],
         out=lambda V, P: numeral_alts(V['a'], 16, '0x' if P['x'] else '', bool(P['u']))),
    Spec('hex.print_int', 'hex.print_int {n}, a, {x}, {u}', {'a': 'n'}, H, lambda V, P: {}, 'print the signed x[:n], without leading zeros', 'hex/output.fj',
         [{'n': 2, 'x': 0, 'u': 1, 'once': 1}, {'n': 1, 'x': 1, 'u': 0}], [{'n': 3, 'x': 1, 'u': 0, 'once': 1}],
         out=lambda V, P: signed_alts(V['a'], 16, '0x' if P['x'] else '', bool(P['u']))),
    Spec('hex.print_dec_uint', 'hex.print_dec_uint {n}, a', {'a': 'n'}, H, lambda V, P: {}, 'prints x[:n] as an unsigned DECIMAL number (without leading zeros)',
         'hex/output.fj', [{'n': 1}, {'n': 2, 'once': 1}], [], out=lambda V, P: numeral_alts(V['a'], 10)),
    Spec('hex.print_dec_int', 'hex.print_dec_int {n}, a', {'a': 'n'}, H, lambda V, P: {}, 'prints x[:n] as a signed DECIMAL number (without leading zeros)',
         'hex/output.fj', [{'n': 1}, {'n': 2, 'once': 1}], [], out=lambda V, P: signed_alts(V['a'], 10)),
    Spec('bit.print_hex_uint', 'bit.print_hex_uint {n}, a, {x}', {'a': 'n'}, Bf, lambda V, P: {}, 'print x[:n] as an unsigned hexadecimal number, without leading zeros',
         'bit/output.fj', [{'n': 4, 'x': 1}, {'n': 8, 'x': 0, 'once': 1}], [{'n': 12, 'x': 1, 'once': 1, 'minw': 32}], out=lambda V, P: numeral_alts(V['a'], 16, '0x' if P['x'] else ''),
         init='stl.startup', widths=(16, 64)),
    Spec('bit.print_hex_int', 'bit.print_hex_int {n}, a, {x}', {'a': 'n'}, Bf, lambda V, P: {}, 'print x[:n] as a signed hexadecimal number, without leading zeros',
         'bit/output.fj', [{'n': 4, 'x': 0}, {'n': 8, 'x': 1, 'once': 1}], [{'n': 12, 'x': 1, 'once': 1, 'minw': 32}], out=lambda V, P: signed_alts(V['a'], 16, '0x' if P['x'] else ''),
         init='stl.startup', widths=(16, 64)),
    Spec('bit.print_dec_uint', 'bit.print_dec_uint {n}, a', {'a': 'n'}, Bf, lambda V, P: {}, 'prints x[:n] as an unsigned decimal number (without leading zeros)',
         'bit/output.fj', [{'n': 3}, {'n': 5}, {'n': 8, 'once': 1}], [{'n': 9, 'once': 1}], out=lambda V, P: numeral_alts(V['a'], 10), init='stl.startup', widths=(16, 64)),
    Spec('bit.print_dec_int', 'bit.print_dec_int {n}, a', {'a': 'n'}, Bf, lambda V, P: {}, 'prints x[:n] as a signed decimal number (without leading zeros)',
         'bit/output.fj', [{'n': 4}, {'n': 7, 'once': 1}], [{'n': 9, 'once': 1}], out=lambda V, P: signed_alts(V['a'], 10), init='stl.startup', widths=(16, 64)),
    Spec('hex.input_dec_uint_until', 'hex.input_dec_uint_until {n}, a, s', {'a': 'n', 's': '2'}, H,
         lambda V, P: {'a': dec_parse(in_bytes(P['k']), 4 * P['n'], False)[0], 's': dec_parse(in_bytes(P['k']), 4 * P['n'], False)[1]},
         'STOPS at the first non-digit byte, which is stored in stop_byte[:2]', 'hex/input.fj', [{'n': 2, 'k': 3}, {'n': 1, 'k': 3}], [{'n': 2, 'k': 4}], n_in=32,
         pre=lambda V, P: dec_parse(in_bytes(P['k']), 4 * P['n'], False)[2]),
    Spec('hex.input_dec_int_until', 'hex.input_dec_int_until {n}, a, s', {'a': 'n', 's': '2'}, H,
         lambda V, P: {'a': dec_parse(in_bytes(P['k']), 4 * P['n'], True)[0], 's': dec_parse(in_bytes(P['k']), 4 * P['n'], True)[1]},
         "Reads an optional leading '-', then ASCII '0'..'9', and STOPS at the first non-digit byte", 'hex/input.fj', [{'n': 2, 'k': 3}], [{'n': 2, 'k': 4}],
         n_in=32, pre=lambda V, P: dec_parse(in_bytes(P['k']), 4 * P['n'], True)[2]),
    Spec('hex.input_dec_uint', 'hex.input_dec_uint {n}, a, X_err', {'a': 'n'}, H,
         lambda V, P: {'a': (terminator_ok(dec_parse(in_bytes(P['k']), 4 * P['n'], False)[1]), dec_parse(in_bytes(P['k']), 4 * P['n'], False)[0])},
         "until a '\\n' or '\\0' (EOF) terminator; jumps to error on any other byte", 'hex/input.fj', [{'n': 2, 'k': 3}], [{'n': 2, 'k': 4}], n_in=32,
         pre=lambda V, P: dec_parse(in_bytes(P['k']), 4 * P['n'], False)[2], exits=['X_err'],
         exit=lambda V, P: z3.If(terminator_ok(dec_parse(in_bytes(P['k']), 4 * P['n'], False)[1]), 1, 0)),
    Spec('hex.input_dec_int', 'hex.input_dec_int {n}, a, X_err', {'a': 'n'}, H,
         lambda V, P: {'a': (terminator_ok(dec_parse(in_bytes(P['k']), 4 * P['n'], True)[1]), dec_parse(in_bytes(P['k']), 4 * P['n'], True)[0])},
         "until a '\\n'/'\\0' terminator; jumps to error on any other byte", 'hex/input.fj', [{'n': 2, 'k': 3, 'once': 1}], [{'n': 2, 'k': 4, 'once': 1}], n_in=32,
         pre=lambda V, P: dec_parse(in_bytes(P['k']), 4 * P['n'], True)[2], exits=['X_err'],
         exit=lambda V, P: z3.If(terminator_ok(dec_parse(in_bytes(P['k']), 4 * P['n'], True)[1]), 1, 0)),
    Spec('hex.input_as_hex(n)', 'hex.input_as_hex {n}, a, X_err', {'a': 'n'}, H,
         lambda V, P: {'a': (z3.And(*[from_ascii_hex(c)[0] for c in in_bytes(P['n'])]),
                             z3.Concat(*[from_ascii_hex(c)[1] for c in in_bytes(P['n'])]))},
         'hex[:n] = hex_from_ascii(input(n-bytes))', 'hex/input.fj', [{'n': 2}], [{'n': 3}], n_in=24, exits=['X_err'],
         exit=lambda V, P: z3.If(z3.And(*[from_ascii_hex(c)[0] for c in in_bytes(P['n'])]), 1, 0), reenter=False),
]


def _one(job: Tuple[int, int, Dict[str, int]]) -> Dict[str, Any]:
    i, w, p = job
    return stlcheck.check_macro(SPECS[i], w, p)


def replay(path: str) -> int:
    case = json.loads(open(path).read())
    sp = next(s for s in SPECS if s.name == case['macro'])
    rep = stlcheck.replay_macro(sp, case['w'], case['params'], case['model'], case['phase'])
    print(json.dumps(rep, indent=1, default=str))
    return 1 if rep['differs'] else 0


def run(report: Report, tier: str, only: Optional[str] = None) -> None:
    from fjv.checks.c04 import jobs
    report.functions += [{'name': f'{sp.name} ({sp.call})', 'file': 'flipjump/stl/' + sp.file, 'doc': sp.doc} for sp in SPECS]
    report.stub('none: real assembler + symbolic FlipJump machine fjsx (the IO op is part of the machine: symbolic input bits, recorded output bits)')
    report.bounds.update({'macros': [sp.name for sp in SPECS], 'sizes': 'values of 1-3 bytes / hex digits, decimal numerals of 3-9 bits / 1-2 hex digits; every value and every input bit symbolic',
                          'widths': 'hex: w=64 (+32 in thorough); bit: w in {16, 64}'})
    report.outside += ['values wider than the sizes listed (decimal: 8-12 bits / 2-3 hex digits; hex numerals: 3 digits; raw bytes: 3 bytes)',
                       'decimal input longer than k bytes (k = 3 in quick, 4 in thorough: digits, an optional sign, and the stop byte)',
                       'hex/strings.fj buffer helpers, bit.print_str, bit.ascii2hex / ascii2dec error branches, stl.output of string constants',
                       'end of input in the middle of a macro (the input always has the bytes the macro reads)',
                       "re-entry of the same call site is not explored for the 'once' configurations (the larger sizes)"]
    report.assumptions += ['fjsx machine = pyspec on aligned ops incl. the IO op', 'spec table transcribed from the doc comments', 'z3 5.1.0']
    js = jobs(SPECS, tier, only)
    common.run_pool(_one, js, report)
    fjsx.cleanup()
