"""C11 - the native engine is memory-safe.

Every llsx run carries, on every path, the obligations: each load/store hits a live object inside its bounds (symbolic
offsets are decided by a solver query on the spot), no shift >= width, no division by zero, free() only of live heap
objects and once, callback results released exactly once, borrowed references untouched.  This check runs the op-step
harnesses of C01/C07 again with allocation failure enabled (malloc/calloc may return NULL at any call), which is the
additional fault model of this property.
"""
from __future__ import annotations

import json
from typing import Any, Optional

from fjv.common import Report


def replay(path: str) -> int:
    from fjv.llsx import native_replay, c07_storage
    case = json.loads(open(path).read())
    if case.get('storage_kind'):
        return c07_storage.replay(case)
    return native_replay.replay(case)


def run(report: Report, tier: str, only: Optional[str] = None) -> None:
    from fjv.llsx import c01_native, c07_storage
    report.outside += ['Memory_dealloc / the Memory_run prologue (build_run_result, ring allocation): not encoded in this revision',
                       'a sequence passed to set_words whose __getitem__ re-enters the Memory object (hostile caller of a private type)',
                       'CPython itself, libc', 'stack exhaustion', 'thread safety']
    report.assumptions += ['object/offset memory model of fjv/llsx/interp.py (out-of-bounds pointer formation without access is not flagged)',
                           'z3 5.1.0']
    c01_native.run(report, tier, only, prop='C11')
    c07_storage.run(report, tier, only, prop='C11')
