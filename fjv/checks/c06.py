"""C06 - writing then reading an .fjm preserves the memory image in every version.

pysym runs the real Writer (add_data / add_segment / write_to_file) on symbolic segment starts, lengths and word
values, feeds the bytes it wrote to the real Reader and proves, at a fresh symbolic word address, that the loaded
image is the abstract image of the call sequence.  Call-sequence *shapes* (how many segments, data lengths, which
data ranges are shared) are configurations.
"""
from __future__ import annotations

import json
import shutil
import struct
import time
from pathlib import Path
from typing import Any, Dict, List, Optional, Tuple

import z3

from fjv import common, fjmio
from fjv.common import Report, Inconclusive
from fjv.pysym import Engine, sym_int, to_z3, lift, is_sym

# a call-sequence shape: list of steps; ('data', n) appends n fresh symbolic words; ('seg', dstart, dlen) adds a
# segment with symbolic start/length using the data range [dstart, dstart+dlen)
Shape = Tuple[str, List[Tuple[Any, ...]]]

SHAPES: List[Shape] = [
    ('one-seg-d0', [('seg', 0, 0)]),
    ('one-seg-d2', [('data', 2), ('seg', 0, 2)]),
    ('one-seg-d4', [('data', 4), ('seg', 0, 4)]),
    ('two-seg-disjoint', [('data', 2), ('seg', 0, 2), ('data', 2), ('seg', 2, 2)]),
    ('two-seg-d4-d0', [('data', 4), ('seg', 0, 4), ('seg', 4, 0)]),
    ('two-seg-shared-data', [('data', 4), ('seg', 0, 4), ('seg', 2, 2)]),
    ('two-seg-touching-data', [('data', 4), ('seg', 0, 2), ('seg', 2, 2)]),
    ('data-after-seg', [('data', 2), ('seg', 0, 2), ('data', 2)]),
    ('two-seg-one-word-overlap', [('data', 6), ('seg', 0, 4), ('seg', 3, 2)]),   # odd data start, ranges share one word
]
SHAPES_THOROUGH: List[Shape] = [
    ('three-seg', [('data', 2), ('seg', 0, 2), ('data', 2), ('seg', 2, 2), ('data', 2), ('seg', 4, 2)]),
    ('two-seg-one-word-overlap-rev', [('data', 6), ('seg', 3, 2), ('seg', 0, 4)]),
    ('two-seg-d4-d4', [('data', 8), ('seg', 0, 4), ('seg', 4, 4)]),
]
# three-call histories: what an earlier add_segment leaves in the writer (a data-range bookkeeping that a zero-data segment with a
# low / high data_start may disturb) must not change how a later data range is judged or re-based
SHAPES_HISTORY: List[Shape] = [(f'hist-d4-z{z}-s{a}+{n}', [('data', 4), ('seg', 0, 4), ('seg', z, 0), ('seg', a, n)])
                               for z in (0, 2, 4) for a, n in ((0, 4), (0, 2), (2, 2))] + \
                              [('hist-z0-d4-shared', [('data', 4), ('seg', 0, 0), ('seg', 0, 4), ('seg', 0, 4)]),
                               ('hist-d2-d2-z0-shared-first', [('data', 4), ('seg', 0, 2), ('seg', 2, 2), ('seg', 0, 0), ('seg', 0, 2)][:5])]
# inputs the format cannot represent / the reader would refuse: the writer must reject them itself
SHAPES_REJECT: List[Shape] = [
    ('odd-data-length', [('data', 3), ('seg', 0, 3)]),
    ('data-range-beyond-pool', [('data', 2), ('seg', 2, 2)]),
    ('word-out-of-range', [('data+', 2), ('seg', 0, 2)]),        # words in [0, 2^w] (one value too many)
    ('segment-beyond-u64', [('data', 2), ('seg+', 0, 2)]),        # start/length in [0, 2^64+2]
]


def one(cfg: Tuple[int, int, Shape, str]) -> Dict[str, Any]:
    common.use_repo()
    w, version, (sname, steps), mode = cfg
    from flipjump.fjm.fjm_consts import FJMVersion
    from flipjump.fjm.fjm_writer import Writer
    from flipjump.utils.exceptions import FlipJumpWriteFjmException, FlipJumpReadFjmException
    W = 96
    E = Engine(W, timeout_ms=120_000)
    tag = f'{mode}/w{w}/v{version}/{sname}'
    U64 = (1 << 64) - 1
    samples: List[Any] = []

    def body() -> None:
        env = fjmio.Env(dict_threshold=3)
        path = '/mem/out.fjm'
        wr = Writer(Path(path), w, FJMVersion(version))     # type: ignore[arg-type]
        orig: List[Any] = []
        segs: List[Tuple[Any, Any, int, int]] = []
        nseg = 0
        outcome = 'written'
        try:
            for st in steps:
                if st[0] in ('data', 'data+'):
                    hi = (1 << w) - 1 if st[0] == 'data' else (1 << w)
                    words = [sym_int(f'd{len(orig) + i}', 0, hi) for i in range(st[1])]
                    orig += words
                    wr.add_data(list(words))
                else:
                    top = U64 if st[0] == 'seg' else U64 + 3
                    S = sym_int(f'S{nseg}', 0, top)
                    L = sym_int(f'L{nseg}', 0, top)
                    nseg += 1
                    wr.add_segment(S, L, st[1], st[2])
                    segs.append((S, L, st[1], st[2]))
            wr.write_to_file()
        except FlipJumpWriteFjmException:
            outcome = 'rejected-by-writer'
        except (struct.error, IndexError, OverflowError, ValueError, TypeError) as e:
            outcome = f'foreign:{type(e).__name__}'
        E.witness(f'{mode}:{outcome.split(":")[0]}', True)
        if outcome == 'rejected-by-writer':
            if mode == 'roundtrip':
                # the writer may reject, but never for a reason other than its documented checks: (shapes here are all
                # expressible) - rejection is only allowed when some documented precondition fails
                ok = []
                for j, (S, L, ds, dl) in enumerate(segs_attempted(steps, E)):
                    pass
            return
        if outcome.startswith('foreign'):
            E.prove(z3.BoolVal(False), f'{tag}: writer raised {outcome.split(":")[1]} instead of FlipJumpWriteFjmException',
                    detail=lambda m: None)
            return
        if mode == 'reject':
            # the writer accepted: then the file must load, and load as the abstract image (checked below) - otherwise the
            # input was unrepresentable and should have been rejected
            pass
        try:
            rd = env.VReader(Path(path))
        except FlipJumpReadFjmException as e:
            E.prove(z3.BoolVal(False), f'{tag}: writer accepted but the reader refuses the file ({str(e)[:60]})')
            return
        except struct.error:
            E.prove(z3.BoolVal(False), f'{tag}: writer accepted but the reader refuses the file (struct)')
            return
        # ---- compare the loaded image with the abstract image of the call sequence
        k = z3.BitVec('kq', W)
        zero = z3.BitVecVal(0, W)
        exp_valid = z3.BoolVal(False)
        exp_val = zero
        for S, L, ds, dl in segs:
            s, ln = to_z3(S), to_z3(L)
            inside = z3.And(k >= s, k < s + ln)
            off = k - s
            v = zero
            for t in range(dl):
                v = z3.If(off == t, to_z3(orig[ds + t]), v)
            exp_valid = z3.Or(exp_valid, inside)
            exp_val = z3.If(inside, v, exp_val)
        mem = rd.memory
        zb = z3.Or(*[z3.And(k >= to_z3(a), k < to_z3(b)) for a, b in rd.zeros_boundaries]) if rd.zeros_boundaries else z3.BoolVal(False)
        got_valid = z3.Or(mem.has(k), zb)
        got_val = z3.If(mem.has(k), mem.val(k), zero)
        items = [(got_valid == exp_valid, f'{tag}: set of valid word addresses'),
                 (z3.Implies(exp_valid, got_val == exp_val), f'{tag}: word value at every in-segment address'),
                 (z3.BoolVal(len(rd.memory_segments) == len(segs)), f'{tag}: number of segments'),
                 (z3.BoolVal(rd.memory_width == w and rd.version == FJMVersion(version)), f'{tag}: width/version header')]
        for j, (ms, (S, L, _, _)) in enumerate(zip(rd.memory_segments, segs)):
            items.append((z3.And(to_z3(ms.segment_start) == to_z3(S), to_z3(ms.segment_length) == to_z3(L)),
                          f'{tag}: segment {j} start/length'))
        if not E.prove_all(items):
            return
        # the lazily-zero tails as the engines see them: through the Reader's own accessor at a symbolic address inside each
        from flipjump.fjm.fjm_reader import GarbageHandling
        from flipjump.utils.exceptions import FlipJumpRuntimeMemoryException
        rd.garbage_handling = GarbageHandling.Stop
        for j, (a, b) in enumerate(list(rd.zeros_boundaries)):
            A = sym_int(f'AQ{j}', 0, (1 << w) - 1)
            if not E.branch(z3.And(to_z3(A) >= to_z3(a), to_z3(A) < to_z3(b))):
                continue
            try:
                got = rd._get_memory_word(A)
                E.prove(to_z3(got) == 0, f'{tag}: a word of lazy-zero tail {j} reads 0 through the reader\'s accessor')
            except FlipJumpRuntimeMemoryException:
                E.prove(z3.BoolVal(False), f'{tag}: the reader\'s accessor refuses a word of lazy-zero tail {j}')
        if rd.zeros_boundaries:
            E.witness('roundtrip:lazy-zero-tail', True)
        if any(dl for _, _, _, dl in segs) and version >= 2:
            E.witness('roundtrip:relative-jumps', True)
        if len(samples) < 2:
            samples.append({'config': tag, 'segments': len(segs), 'data_words': len(orig), 'outcome': outcome})

    def segs_attempted(steps_: Any, E_: Any) -> List[Any]:
        return []

    t0 = time.time()
    incon: List[str] = []
    try:
        E.explore(body)
    except Inconclusive as e:
        incon.append(f'{tag}: {e}')
    viol = []
    replayed = 0
    for f in E.failed:
        replayed += 1
        case = {'w': w, 'version': version, 'shape': [sname, [list(s) for s in steps]], 'model': f['model'], 'label': f['label']}
        rep = replay_case(case)
        if rep['differs']:
            p = common.write_replay('C06', tag, case)
            sig = f"{sname}:v{'01' if version < 2 else '23'}:{f['label'].split(': ', 1)[1].split(' (')[0]}"
            viol.append({'label': f['label'], 'signature': sig, 'replay': p, 'detail': rep})
        else:
            incon.append(f"{f['label']}: counterexample did not reproduce on the real code: {rep}")
    return {'configs': 1, **E.stats(), 'samples': samples, 'violations': viol, 'inconclusive': incon, 'replayed': replayed,
            'harnesses': {tag: {'paths': E.paths, 'queries': sum(E.q.values()), 'wall_s': round(time.time() - t0, 2)}}}


def replay_case(case: Dict[str, Any]) -> Dict[str, Any]:
    """concrete run through the public API with real struct / lzma / files"""
    common.use_repo()
    fjm_reader, fjm_writer = fjmio.Env.uninstall()
    from flipjump.fjm.fjm_consts import FJMVersion
    from flipjump.fjm.fjm_writer import Writer
    from flipjump.fjm.fjm_reader import Reader
    from flipjump.utils.exceptions import FlipJumpWriteFjmException, FlipJumpReadFjmException
    m = case['model']
    w, version = case['w'], case['version']
    d = common.scratch_dir('c06')
    try:
        path = d / 'x.fjm'
        wr = Writer(path, w, FJMVersion(version))
        orig: List[int] = []
        segs = []
        nseg = 0
        try:
            for st in case['shape'][1]:
                if st[0].startswith('data'):
                    words = [int(m.get(f'd{len(orig) + i}', 0)) for i in range(st[1])]
                    orig += words
                    wr.add_data(list(words))
                else:
                    S, L = int(m.get(f'S{nseg}', 0)), int(m.get(f'L{nseg}', 0))
                    nseg += 1
                    wr.add_segment(S, L, st[1], st[2])
                    segs.append((S, L, st[1], st[2]))
            wr.write_to_file()
        except FlipJumpWriteFjmException as e:
            return {'differs': False, 'outcome': f'writer rejected: {e}'}
        except Exception as e:  # noqa: BLE001
            return {'differs': True, 'outcome': f'writer raised {type(e).__name__}: {e}', 'file_left_behind': path.exists()}
        try:
            rd = Reader(path)
        except (FlipJumpReadFjmException) as e:
            return {'differs': True, 'outcome': f'writer accepted, reader refuses: {e}'}
        if 'lazy-zero tail' in case.get('label', ''):
            # the symbolic runs use a dense/lazy threshold of 3 words instead of 1000 (a stub listed in the evidence); the same file
            # is loaded again with that threshold so that the model's short zero tails are lazy, and read through the accessor
            from flipjump.fjm import fjm_reader as fr
            from flipjump.fjm.fjm_reader import GarbageHandling
            from flipjump.utils.exceptions import FlipJumpRuntimeMemoryException
            keep = fr._reserved_dict_threshold
            fr._reserved_dict_threshold = 3
            try:
                rd2 = Reader(path, garbage_handling=GarbageHandling.Stop)
                badz = []
                for S, L, ds, dl in segs:
                    for t in range(dl, min(L, dl + 64)):
                        try:
                            v = rd2._get_memory_word(S + t)
                            if v != 0:
                                badz.append((S + t, v, 0))
                        except FlipJumpRuntimeMemoryException:
                            badz.append((S + t, 'refused (out of every segment)', 0))
            finally:
                fr._reserved_dict_threshold = keep
            return {'differs': bool(badz), 'outcome': 'loaded (lazy threshold 3)', 'mismatch(addr,got,want)': badz[:3]}
        exp: Dict[int, int] = {}
        for S, L, ds, dl in segs:
            for t in range(min(L, 5000)):
                exp[S + t] = orig[ds + t] if t < dl else 0
        got = rd.get_memory()
        bad = [(k, got[k], v) for k, v in exp.items() if got[k] != v][:3]
        for k, v in rd.memory.items():
            if k not in exp and not any(S <= k < S + L for S, L, _, _ in segs):
                bad.append((k, v, None))
        return {'differs': bool(bad), 'outcome': 'loaded', 'mismatch(addr,got,want)': bad[:3]}
    finally:
        shutil.rmtree(d, ignore_errors=True)


def replay(path: str) -> int:
    case = json.loads(open(path).read())
    if 'lzma_preset' in case:
        part = _lzma_job(case['lzma_preset'])
        print(json.dumps(part['violations'] or part['samples'], indent=1, default=str))
        return 1 if part['violations'] else 0
    rep = replay_case(case)
    print(json.dumps(rep, indent=1, default=str))
    return 1 if rep['differs'] else 0


def threshold_concrete(report: Report) -> None:
    """the real dense/lazy threshold (1000): concrete zero-tail lengths around it round-trip (validation runs)"""
    common.use_repo()
    fjm_reader, fjm_writer = fjmio.Env.uninstall()
    from flipjump.fjm.fjm_consts import FJMVersion
    d = common.scratch_dir('c06t')
    try:
        for tail in (998, 999, 1000, 1001, 1002):
            for version in (1, 3):
                p = d / 'x.fjm'
                wr = fjm_writer.Writer(p, 16, FJMVersion(version))
                wr.add_data([5, 7])
                wr.add_segment(10, 2 + tail + (tail % 2), 0, 2)
                wr.write_to_file()
                rd = fjm_reader.Reader(p)
                for k in (9, 10, 11, 12, 11 + tail, 12 + tail + (tail % 2)):
                    try:
                        v: Any = rd._get_memory_word(k)
                    except Exception:  # noqa: BLE001
                        v = None
                    want = {10: 5, 11: 7}.get(k, 0) if 10 <= k < 12 + tail + (tail % 2) else None
                    if v != want:
                        report.inconclusive.append(f'threshold check: tail {tail} v{version} word {k}: {v} != {want}')
                report.validation_runs += 1
    finally:
        shutil.rmtree(d, ignore_errors=True)


def _lzma_job(preset: int) -> Dict[str, Any]:
    """the assumption under the LZMA stub, checked on the real code: what the Writer compresses with this preset, the Reader decompresses
    to the same bytes - on a buffer whose matches reach further back than the reader's default dictionary (8 MiB)"""
    common.use_repo()
    import lzma
    import random
    from flipjump.fjm.fjm_writer import Writer
    from flipjump.fjm.fjm_reader import Reader
    from flipjump.fjm.fjm_consts import FJMVersion
    from flipjump.utils.exceptions import FlipJumpReadFjmException
    rnd = random.Random(preset)
    blk = rnd.randbytes(1 << 20)
    data = blk + rnd.randbytes(9 << 20) + blk
    wr = Writer(Path('/nonexistent/x.fjm'), 64, FJMVersion(3), lzma_preset=preset)
    t0 = time.time()
    comp = wr._compress_data(data)
    try:
        back = Reader._decompress_data(comp)
        ok = back == data
        err = None if ok else 'decompressed bytes differ'
    except FlipJumpReadFjmException as e:
        ok, err = False, f'{e} <- {e.__cause__!r}'
    part: Dict[str, Any] = {'configs': 1, 'paths': 0, 'queries': {}, 'solver_s': 0.0, 'obligations': 0, 'discharged': 0, 'witnesses': {},
                            'samples': [{'lzma_contract_validation': {'preset': preset, 'bytes': len(data), 'compressed': len(comp), 'round_trip': ok,
                                                                      'wall_s': round(time.time() - t0, 1)}}],
                            'violations': [], 'inconclusive': [], 'replayed': 1, 'harnesses': {}}
    if not ok:
        case = {'lzma_preset': preset}
        part['violations'].append({'label': f'lzma preset {preset}: the reader cannot decompress what the writer compressed ({err})',
                                   'signature': f'lzma-contract:preset{preset & 0x1F}', 'replay': common.write_replay('C06', f'lzma_preset_{preset}', case),
                                   'detail': {'error': err, 'bytes': len(data)}})
    return part


def run(report: Report, tier: str, only: Optional[str] = None) -> None:
    from flipjump.fjm.fjm_writer import Writer
    from flipjump.fjm.fjm_reader import Reader
    report.encode(Writer.__init__, Writer.add_data, Writer.add_segment, Writer._validate_segment_not_overlapping,
                  Writer._validate_segment_addresses_not_overlapping, Writer._validate_segment_data_not_overlapping,
                  Writer._is_collision, Writer._update_to_relative_jumps, Writer.write_to_file, Writer._compress_data,
                  Reader.__init__, Reader._init_header_fields, Reader._validate_header, Reader._init_segments,
                  Reader._read_decompressed_data, Reader._decompress_data, Reader._init_memory)
    report.stub(*fjmio.Env.STUBS)
    report.bounds.update({'call_sequences': [s[0] for s in SHAPES + (SHAPES_THOROUGH if tier == 'thorough' else []) + SHAPES_HISTORY + SHAPES_REJECT],
                          'symbolic': 'every segment start and length (0..2^64-1), every data word (0..2^w-1)',
                          'concrete_per_config': 'number of calls, data lengths (0..8 words), data range starts',
                          'int_encoding': '96-bit vectors with interval overflow guard'})
    report.outside += ['the LZMA bit stream itself (stubbed by its round-trip contract)', 'lzma preset values (only reach the stub)',
                       'file-system errors', 'more than 4 segments / 8 data words per call sequence']
    report.assumptions += ['lzma.decompress(lzma.compress(x)) == x for the raw LZMA2 filter chain (validated on the real Writer._compress_data / '
                           'Reader._decompress_data per preset on an 11 MiB buffer with matches more than 8 MiB back: not solver-decided)',
                           'z3 5.1.0', 'pysym proxies']
    if not only or 'lzma' in only:
        common.run_pool(_lzma_job, [6, 7, 9] if tier == 'quick' else list(range(10)), report)
    report.require_witnesses('roundtrip:written', 'roundtrip:rejected-by-writer', 'roundtrip:lazy-zero-tail',
                             'roundtrip:relative-jumps')
    widths = (8, 16, 32, 64)
    shapes = SHAPES + (SHAPES_THOROUGH if tier == 'thorough' else [])
    cfgs: List[Tuple[int, int, Shape, str]] = []
    for w in widths:
        for version in (0, 1, 2, 3):
            if tier == 'quick' and (w, version) not in ((8, 0), (8, 2), (16, 1), (16, 3), (32, 2), (64, 1), (64, 2), (64, 3)):
                continue
            for sh in shapes:
                cfgs.append((w, version, sh, 'roundtrip'))
            # versions 2/3 only (where the writer keeps data-range bookkeeping); under 0/1 sharing is accepted and the three
            # symbolic segment ranges do not finish within minutes
            if version >= 2 and (tier != 'quick' or (w, version) in ((16, 3), (64, 2))):
                for sh in SHAPES_HISTORY:
                    cfgs.append((w, version, sh, 'roundtrip'))
    for w in ((8, 64) if tier == 'quick' else widths):
        for version in ((1, 2) if tier == 'quick' else (0, 1, 2, 3)):
            for sh in SHAPES_REJECT:
                cfgs.append((w, version, sh, 'reject'))
    if only:
        cfgs = [c for c in cfgs if only in f'{c[3]}/w{c[0]}/v{c[1]}/{c[2][0]}']
    common.run_pool(one, cfgs, report)
    threshold_concrete(report)
