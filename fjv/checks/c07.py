"""C07 - results and final memory do not depend on engine or storage layout.

Every engine / storage layout is proved equal, op by op, to the SAME reference machine (pyspec) on the same abstract
memory - they are therefore equal to each other; no pairwise product is needed.  C01 covers the python loops, the flat
loop in flat mode and the paged loop; this check adds the layouts C01 does not touch: the hybrid window (ops and flips
straddling the flat window edge), pages whose index collides in the 16-entry page cache, the last-ops ring clone (flat,
hybrid and paged) with the ring content, and the speculation-measurement loop.
"""
from __future__ import annotations

import json
from typing import Any, Optional

from fjv.common import Report


def replay(path: str) -> int:
    from fjv.llsx import native_replay, c07_storage
    case = json.loads(open(path).read())
    if case.get('storage_kind'):
        return c07_storage.replay(case)
    if case.get('glue'):
        from fjv.checks import native_glue
        return native_glue.replay(case)
    return native_replay.replay(case)


def run(report: Report, tier: str, only: Optional[str] = None) -> None:
    from fjv.llsx import c01_native, c07_storage
    report.outside += ['FLIPJUMP_FLAT_MAX_WORDS parsing by strtoull', 'more than 2 segments in the op-step harnesses',
                       'Reader memories other than the listed address shapes in the python-side bulk load (fjm_run._run_native with the core stubbed)']
    report.assumptions += ['pyspec', 'the representation invariants stated in fjv/llsx/env.py (flat: gap words hold the fill constant; '
                           'pages: in-segment words hold the program word)', 'z3 5.1.0']
    c01_native.run(report, tier, only, prop='C07')
    c07_storage.run(report, tier, only, prop='C07')
    from fjv.checks import native_glue
    native_glue.run(report, tier, only, ['return'])
