"""C19 - devices see the same program memory under every engine.

(a) Python engines (pysym): the real ReaderDeviceMemory over the real Reader of C01's fully symbolic machine state: a device
    read, a device write and a packed-byte read/write at symbolic addresses, then ONE op of the real run loop, then device
    reads again; every value the device sees, everything the op observes and the final memory are proved equal to pyspec run
    over the reference device semantics (word / bits #w..#w+7 of the op's jump word).
(b) Native engine (llsx): Memory_get_word / Memory_set_word (the NativeDeviceMemory accessors) are executed symbolically in
    flat / hybrid / paged storage over the C01 abstraction; the value read is the program's word, and after a device write the
    PROGRAM's accessor (mem_read_word, the function every native loop reads through) returns the written value at that
    address and the old word everywhere else.  See fjv/llsx/c19_native.py.
(c) Screen device (pysym): the real InMemoryScreen decodes every command stream of bounded length with symbolic bytes;
    pixels, palette and the presented frames are proved equal to the documented layout, malformed streams end in
    IODeviceException.
"""
from __future__ import annotations

import json
import time
from typing import Any, Dict, List, Optional, Tuple

import z3

from fjv import common, pyengine, pyspec
from fjv.common import Report, Inconclusive
from fjv.pysym import Engine, assume, sym_int, to_z3, lift, mk, int_of, SymInt


# ------------------------------------------------------------------------------------------------ (a) python device memory
def ref_byte(word: Any, w: int) -> Any:
    nb = w.bit_length()
    return z3.Extract(nb + 7, nb, word)


def dev_config(cfg: Tuple[int, str, str]) -> Dict[str, Any]:
    common.use_repo()
    w, eng, mode = cfg
    from flipjump.interpreter.io_devices.device_memory import ReaderDeviceMemory
    from flipjump.utils.exceptions import IOReadOnEOF
    pyengine.install_format_stubs()
    W = 2 * w + 16
    E = Engine(W, timeout_ms=180_000)
    tag = f'py/{eng}/w{w}/{mode}'
    ww = w.bit_length() - 1
    samples: List[Any] = []

    def body() -> Any:
        st = pyengine.PyState(w, W, 1, 1)
        dm = ReaderDeviceMemory(st.reader)
        smem = pyengine.SpecMem(st)
        items: List[Tuple[Any, str]] = []
        top = (1 << w) - 1

        def sload(k: Any) -> Any:           # reference: the current word, zero if never written
            return smem.alpha(k if z3.is_expr(k) else lift(k)[0])
        B = jb = None
        if mode == 'read-op-read':
            A = sym_int('A', 0, top)
            r1 = dm.read_word(A)
            items.append((to_z3(r1) == z3.ZeroExt(W - w, sload(A)), f'{tag}: device read_word returns the current word (zero if never written)'))
        elif mode == 'write-op-read':
            B = sym_int('B', 0, top)
            V = sym_int('V', 0, 4 * top + 3)            # device values are masked to w bits
            assume(st.valid0(to_z3(B)))                 # writes inside segments
            dm.write_word(B, V)
            smem.store(B, mk(to_z3(V) & top, 0, top))
            E.witness('dev:write-into-a-lazy-zero-word', z3.Not(z3.Select(st.P0, to_z3(B))))
        else:
            # the packed-byte helpers: pure functions over read_word / write_word (no program op in between)
            opa, opb = (sym_int(n, 0, (top >> (ww + 1)) - 1) for n in ('OPA', 'OPB'))     # op index; bit address = index*2w
            BV = sym_int('BV', 0, 1023)
            jb = to_z3(opb) * 2 + 1
            assume(st.valid0(jb))
            b1 = dm.read_data_byte(opa * (2 * w))
            items.append((to_z3(b1) == z3.ZeroExt(W - 8, ref_byte(sload(to_z3(opa) * 2 + 1), w)), f'{tag}: read_data_byte = bits #w..#w+7 of the jump word'))
            dm.write_data_byte(opb * (2 * w), BV)
            old = sload(jb)
            nb = w.bit_length()
            parts = [z3.Extract(w - 1, nb + 8, old)] if nb + 8 < w else []
            parts += [z3.Extract(7, 0, to_z3(BV)), z3.Extract(nb - 1, 0, old)]
            smem.store(mk(jb, 0, top), mk(z3.ZeroExt(W - w, z3.Concat(*parts)), 0, top))
            D = sym_int('D', 0, top)
            r3 = dm.read_word(D)
            items.append((to_z3(r3) == z3.ZeroExt(W - w, sload(D)), f'{tag}: write_data_byte changes exactly bits #w..#w+7 of the jump word'))
            E.witness('dev:read-back-of-the-written-byte', jb == to_z3(D))
            E.prove_all(items, detail=pyengine.image_reader(st, list(st.reader.memory.keys) + list(smem.keys)))
            return 'bytes'
        # one op of the real loop on the memory the device left
        io = pyengine.SymIO(st.avail, st.bits, IOReadOnEOF)
        res = pyengine.run_loop(eng, st, 1, io)
        sio = pyengine.SpecIO(st)
        rec: Dict[str, Any] = {'ip': 0}
        status, extra, counted = pyspec.step(w, smem, sio, 0, rec)
        spec = {'status': status, 'fault': extra if status == pyspec.MEMERR else None, 'ip': extra if status == pyspec.CONTINUE else 0,
                'ops': 1 if counted else 0, 'out': sio.out, 'reads': sio.reads, 'started': [0], 'mem': smem, 'recs': [rec]}
        D = sym_int('D', 0, top)
        r3 = dm.read_word(D)
        items.append((to_z3(r3) == z3.ZeroExt(W - w, sload(D)), f'{tag}: device read_word after the program op'))
        if 'f' in rec:
            if B is not None:
                E.witness('dev:op-reads-the-word-the-device-wrote', z3.Or(*[z3.LShR(to_z3(rec['ip']) + k * w, ww) == to_z3(B) for k in (0, 1)]))
                E.witness('dev:read-back-of-the-written-word', to_z3(B) == to_z3(D))
            E.witness('dev:device-reads-the-word-the-op-flipped', z3.LShR(to_z3(rec['f']), ww) == to_z3(D))
        ok = E.prove_all(items, detail=pyengine.image_reader(st, list(st.reader.memory.keys) + list(smem.keys)))
        if ok:
            pyengine.compare(E, st, res, spec, tag)
        if len(samples) < 2:
            samples.append({'config': tag, 'result_kind': res['kind'], 'spec_status': spec['status']})
        return res['kind']

    t0 = time.time()
    incon: List[str] = []
    try:
        E.explore(body)
    except Inconclusive as e:
        incon.append(f'{tag}: {e}')
    viol, seen = [], set()
    replayed = 0
    for f in E.failed:
        key = f['label'].split(': ')[-1]
        if key in seen:
            continue
        seen.add(key)
        replayed += 1
        case = {'part': 'py-device', 'w': w, 'engine': eng, 'mode': mode, 'label': f['label'], 'raw_model': f['model']}
        try:
            case.update(f['detail'] or {})
            rep = replay_dev(case)
        except Exception as e:  # noqa: BLE001
            incon.append(f"{f['label']}: replay failed: {e!r}")
            continue
        if rep['differs']:
            viol.append({'label': f['label'], 'signature': f'py-device:{eng}:{key}', 'replay': common.write_replay('C19', f'{tag}_{key}', case), 'detail': rep})
        else:
            incon.append(f"{f['label']}: counterexample did not reproduce on the real code: {str(rep)[:200]}")
    return {'configs': 1, **E.stats(), 'samples': samples, 'violations': viol, 'inconclusive': incon, 'replayed': replayed,
            'harnesses': {tag: {'paths': E.paths, 'queries': sum(E.q.values()), 'wall_s': round(time.time() - t0, 2)}}}


def replay_dev(case: Dict[str, Any]) -> Dict[str, Any]:
    """the same device accesses + one op on the real Reader / ReaderDeviceMemory / loop with plain ints, against a dict model"""
    common.use_repo()
    from flipjump.fjm.fjm_reader import Reader, GarbageHandling
    from flipjump.interpreter import fjm_run
    from flipjump.interpreter.io_devices.device_memory import ReaderDeviceMemory
    from flipjump.utils.classes import RunStatistics
    from flipjump.utils.exceptions import FlipJumpRuntimeMemoryException, IOReadOnEOF
    w, eng, mode = case['w'], case['engine'], case['mode']
    m = case['raw_model']
    words = {int(k): v for k, v in case['words'].items()}
    zr = [tuple(z) for z in case['zero_ranges']]
    r = Reader.__new__(Reader)
    r.garbage_handling, r.memory_width = GarbageHandling.Stop, w
    r.memory = dict(words)
    r.zeros_boundaries = list(zr)
    r.memory_segments = []
    dm = ReaderDeviceMemory(r)
    model = dict(words)
    top = (1 << w) - 1
    nb = w.bit_length()
    got, want = [], []
    g = lambda n: int(m.get(n, 0))  # noqa: E731
    if mode == 'read-op-read':
        got.append(dm.read_word(g('A')))
        want.append(model.get(g('A'), 0))
    elif mode == 'write-op-read':
        dm.write_word(g('B'), g('V'))
        model[g('B')] = g('V') & top
    else:
        ja, jb = (2 * g(n) + 1 for n in ('OPA', 'OPB'))
        got.append(dm.read_data_byte(g('OPA') * 2 * w))
        want.append((model.get(ja, 0) >> nb) & 0xFF)
        dm.write_data_byte(g('OPB') * 2 * w, g('BV'))
        model[jb] = (model.get(jb, 0) & ~(0xFF << nb)) | ((g('BV') & 0xFF) << nb)
        got.append(dm.read_word(g('D')))
        want.append(model.get(g('D'), 0))
        return {'differs': got != want, 'device_saw': got, 'documented': want}

    class IO:
        def __init__(self) -> None:
            self.out: List[bool] = []
            self.reads = 0

        def write_bit(self, b: bool) -> None:
            self.out.append(bool(b))

        def read_bit(self) -> bool:
            i = self.reads
            self.reads += 1
            if i >= len(case['inputs']) or not case['inputs'][i][0]:
                raise IOReadOnEOF('eof')
            return case['inputs'][i][1]
    stats = RunStatistics(w, None)
    ring = pyengine.Ring(1)
    stats.last_ops_addresses = ring  # type: ignore[assignment]
    io = IO()
    real: Dict[str, Any] = {}
    try:
        t = fjm_run._run_featured(r, io, stats, None, False) if eng == 'featured' else fjm_run._run_fast(r, io, stats)
        real['status'] = int(t.termination_cause)
    except FlipJumpRuntimeMemoryException as e:
        real['status'], real['fault'] = pyspec.MEMERR, e.memory_address
    except pyengine.StopAfterK as s:
        real['status'], real['next_ip'] = pyspec.CONTINUE, s.next_ip
    real.update(out=io.out, reads=io.reads)
    bits = [b for av, b in case['inputs'] if av]
    ref = pyspec.run_concrete(w, model, zr, bits, 1)
    exp = {'status': ref['status'], 'out': ref['out'], 'reads': ref['reads']}
    if ref['status'] == pyspec.MEMERR:
        exp['fault'] = ref['fault']
    if ref['status'] == pyspec.CONTINUE:
        exp['next_ip'] = ref['ip']
    got.append(dm.read_word(g('D')))
    want.append(ref['words'].get(g('D'), 0) or 0)
    differs = got != want or any(real.get(k) != exp.get(k) for k in set(real) | set(exp))
    return {'differs': differs, 'device_saw': got, 'documented': want, 'op': real, 'reference_op': exp}


# ------------------------------------------------------------------------------------------------ (c) screen device
def screen_config(cfg: Tuple[int, str]) -> Dict[str, Any]:
    common.use_repo()
    w, scen = cfg
    from flipjump.interpreter.io_devices import ScreenIO
    from flipjump.interpreter.io_devices.device_memory import DeviceMemory
    from flipjump.utils.exceptions import IODeviceException
    W = 96
    E = Engine(W, timeout_ms=120_000, max_paths=6000)
    tag = f'screen/w{w}/{scen}'
    ab = w // 8

    class FakeHash:
        def __init__(self, data: Any) -> None:
            pass

        def hexdigest(self) -> str:
            return 'h'
    ScreenIO.hashlib = type('H', (), {'sha256': staticmethod(lambda data: FakeHash(data))})       # type: ignore[attr-defined]
    ScreenIO.bytes = lambda *a, **k: b''        # type: ignore[attr-defined]   # only feeds the frame hash

    def body() -> None:
        MEM = z3.Array('DM', z3.BitVecSort(W), z3.BitVecSort(8))        # packed byte of the op at a bit address

        class Mem(DeviceMemory):
            memory_width = w

            def read_word(self, word_address: int) -> int:
                raise AssertionError('the screen reads packed bytes only')

            def write_word(self, word_address: int, value: int) -> None:
                raise AssertionError('the screen never writes')

            def read_data_byte(self, op_bit_address: Any) -> Any:
                return mk(z3.ZeroExt(W - 8, z3.Select(MEM, lift(op_bit_address)[0])), 0, 255)
        scr = ScreenIO.InMemoryScreen()
        attached = scen != 'raw-unattached'
        if attached:
            scr.attach_memory(Mem())
        frames: List[Tuple[List[Any], List[Any]]] = []
        orig_present = scr._present

        def present() -> None:
            orig_present()
            frames.append((list(scr.pixel_indices), list(scr.palette)))
        scr._present = present          # type: ignore[method-assign]
        byte = lambda n: sym_int(n, 0, 255)  # noqa: E731
        stream: List[Any] = []
        # a model of the documented decoder runs alongside: state (width, height, bpp, palette, pixels), frames presented
        width = sym_int('WID', 0, 2)
        height = sym_int('HEI', 0, 2)
        bpp = sym_int('BPP', 0, 12)         # the device accepts 4 and 8 only; the range keeps 1 << bpp inside the encoding
        psize = sym_int('PSZ', 0, 2)
        init = [1, width, 0, height, 0, bpp, psize, 0]
        addr = [byte(f'AD{i}') for i in range(ab)]
        dw = 2 * w

        def packed(a: Any, k: Any) -> Any:
            return z3.ZeroExt(W - 8, z3.Select(MEM, lift(a)[0] + lift(k)[0] * dw))

        def address_value() -> Any:
            v: Any = 0
            for i, b in enumerate(addr):
                v = v | (b << (8 * i))
            return v
        try:
            if scen == 'init-palette-update':
                for b in init:
                    scr._handle_byte(b)
                ok_init = z3.And(z3.Or(to_z3(bpp) == 4, to_z3(bpp) == 8), to_z3(width) != 0, to_z3(height) != 0)
                E.prove(ok_init, f'{tag}: init_screen with a bad bpp / zero size is rejected')
                wv, hv, pv = int_of(width), int_of(height), int_of(psize)
                for b in [2] + addr:
                    scr._handle_byte(b)
                a = address_value()
                items = [(z3.BoolVal(len(scr.palette) == pv), f'{tag}: palette size')]
                for k in range(min(pv, len(scr.palette))):
                    for c in range(3):
                        items.append((to_z3(scr.palette[k][c]) == packed(a, 3 * k + c), f'{tag}: palette entry {k} component {c}'))
                addr2 = [byte(f'AE{i}') for i in range(ab)]
                for b in [3] + addr2:
                    scr._handle_byte(b)
                a2: Any = 0
                for i, b in enumerate(addr2):
                    a2 = a2 | (b << (8 * i))
                mask = z3.If(to_z3(bpp) == 4, z3.BitVecVal(15, W), z3.BitVecVal(255, W))
                items.append((z3.BoolVal(len(frames) == 1 and len(scr.pixel_indices) == wv * hv), f'{tag}: one frame of width*height pixels is presented'))
                for k in range(min(wv * hv, len(scr.pixel_indices))):
                    items.append((to_z3(scr.pixel_indices[k]) == (packed(a2, k) & mask), f'{tag}: pixel {k} = packed byte at screen + k*dw, masked to bpp'))
                    if frames:
                        px = frames[0][0][k]
                        rgb = scr.last_frame_rgb[k]
                        for c in range(3):
                            exp = z3.BitVecVal(0, W)
                            for j in range(pv - 1, -1, -1):
                                exp = z3.If(to_z3(px) == j, to_z3(scr.palette[j][c]), exp)
                            items.append((to_z3(rgb[c]) == exp, f'{tag}: presented rgb of pixel {k} component {c} = palette[index] (black beyond the palette)'))
                E.prove_all(items)
                E.witness('screen:frame-presented', True)
            elif scen == 'rectangle':
                wv, hv = 2, 2
                for b in [1, wv, 0, hv, 0, 8, 0, 0]:
                    scr._handle_byte(b)
                before = [sym_int(f'OLD{k}', 0, 255) for k in range(4)]
                scr.pixel_indices = list(before)
                x, y, rw, rh = (sym_int(n, 0, 3) for n in ('RX', 'RY', 'RW', 'RH'))
                xh = byte('RXH')            # high byte of x: a 16-bit field
                for b in [4, x, xh, y, 0, rw, 0, rh, 0] + addr:
                    scr._handle_byte(b)
                xv = to_z3(x) + (to_z3(xh) << 8)
                inside = z3.And(xv + to_z3(rw) <= wv, to_z3(y) + to_z3(rh) <= hv)
                E.prove(inside, f'{tag}: a rectangle exceeding the screen is rejected')
                a = address_value()
                items = [(z3.BoolVal(len(frames) == 1), f'{tag}: update_rectangle presents one frame')]
                for py in range(hv):
                    for px in range(wv):
                        k = py * wv + px
                        inrect = z3.And(xv <= px, px < xv + to_z3(rw), to_z3(y) <= py, py < to_z3(y) + to_z3(rh))
                        exp = z3.If(inrect, packed(a, k), to_z3(before[k]))
                        items.append((to_z3(scr.pixel_indices[k]) == exp, f'{tag}: pixel ({px},{py}) = framebuffer byte inside the rectangle, unchanged outside'))
                E.prove_all(items)
                E.witness('screen:rectangle-presented', True)
            elif scen in ('raw', 'raw-unattached'):
                for b in init:
                    scr._handle_byte(b)
                wv, hv = int_of(width), int_of(height)
                pix = [byte(f'PX{k}') for k in range(wv * hv)]
                for b in [5] + pix:
                    scr._handle_byte(b)
                mask = z3.If(to_z3(bpp) == 4, z3.BitVecVal(15, W), z3.BitVecVal(255, W))
                items = [(z3.BoolVal(len(frames) == 1 and len(scr._command_buffer) == 0), f'{tag}: raw frame consumed exactly width*height bytes')]
                for k in range(min(len(pix), len(scr.pixel_indices))):
                    items.append((to_z3(scr.pixel_indices[k]) == (to_z3(pix[k]) & mask), f'{tag}: raw pixel {k}'))
                E.prove_all(items)
                E.witness('screen:raw-frame-presented', True)
            elif scen == 'reinit-raw':
                # two init_screen commands with different sizes, a raw frame after each: framing must follow the CURRENT size
                w1, h1, w2, h2 = (sym_int(n, 1, 2) for n in ('W1', 'H1', 'W2', 'H2'))
                for b in [1, w1, 0, h1, 0, 8, 0, 0]:
                    scr._handle_byte(b)
                n1 = int_of(w1) * int_of(h1)
                pix1 = [byte(f'PA{k}') for k in range(n1)]
                for b in [5] + pix1:
                    scr._handle_byte(b)
                for b in [1, w2, 0, h2, 0, 8, 0, 0]:
                    scr._handle_byte(b)
                n2 = int_of(w2) * int_of(h2)
                pix2 = [byte(f'PB{k}') for k in range(n2)]
                for b in [5] + pix2:
                    scr._handle_byte(b)
                items = [(z3.BoolVal(len(frames) == 2 and len(scr._command_buffer) == 0 and len(scr.pixel_indices) == n2),
                          f'{tag}: each raw frame consumes exactly the current width*height bytes (two frames presented)')]
                for k in range(min(n2, len(scr.pixel_indices))):
                    items.append((to_z3(scr.pixel_indices[k]) == to_z3(pix2[k]), f'{tag}: pixel {k} of the second frame'))
                E.prove_all(items)
                E.witness('screen:reinit', z3.BoolVal(n1 != n2))
            elif scen == 'unknown-command':
                c = byte('CMD')
                assume(z3.Or(to_z3(c) == 0, to_z3(c) > 5))
                scr._handle_byte(c)
                E.prove(z3.BoolVal(False), f'{tag}: an unknown command byte is rejected with a device error')
            elif scen == 'not-initialized':
                c = sym_int('CMD', 3, 5)
                for b in [c] + addr + [0] * 8:
                    scr._handle_byte(b)
                E.prove(z3.BoolVal(False), f'{tag}: update before init_screen is rejected with a device error')
        except (IndexError, KeyError, ValueError, TypeError, ZeroDivisionError, AttributeError, OverflowError) as e:
            # neither decoded nor rejected with a device error
            E.prove(z3.BoolVal(False), f'{tag}: the stream raised {type(e).__name__} instead of a device error')
        except IODeviceException:
            E.witness('screen:device-error', True)
            if scen == 'init-palette-update':
                bad = z3.Not(z3.And(z3.Or(to_z3(bpp) == 4, to_z3(bpp) == 8), to_z3(width) != 0, to_z3(height) != 0))
                E.prove(bad, f'{tag}: device error only for a bad bpp / zero size')
            elif scen == 'rectangle':
                E.prove(z3.Not(z3.And(to_z3(x) + (to_z3(xh) << 8) + to_z3(rw) <= 2, to_z3(y) + to_z3(rh) <= 2)), f'{tag}: device error only when the rectangle exceeds the screen')
            elif scen in ('raw', 'raw-unattached'):
                bad = z3.Not(z3.And(z3.Or(to_z3(bpp) == 4, to_z3(bpp) == 8), to_z3(width) != 0, to_z3(height) != 0))
                E.prove(bad, f'{tag}: device error only for a bad init')
            elif scen == 'reinit-raw':
                E.prove(z3.BoolVal(False), f'{tag}: a valid stream (two inits, two raw frames) is rejected with a device error')

    t0 = time.time()
    incon: List[str] = []
    try:
        E.explore(body)
    except Inconclusive as e:
        incon.append(f'{tag}: {e}')
    viol, replayed, seen = [], 0, set()
    for f in E.failed:
        key = f['label'].split(': ')[-1]
        if key in seen:
            continue
        seen.add(key)
        replayed += 1
        case = {'part': 'screen', 'w': w, 'scenario': scen, 'model': {k: int(v) for k, v in f['model'].items() if isinstance(v, int)}, 'label': f['label']}
        rep = replay_screen(case)
        if rep['differs']:
            viol.append({'label': f['label'], 'signature': f'screen:{scen}:{key[:50]}', 'replay': common.write_replay('C19', tag + key[:24], case), 'detail': rep})
        else:
            incon.append(f"{f['label']}: counterexample did not reproduce on the real device: {str(rep)[:200]}")
    return {'configs': 1, **E.stats(), 'samples': [], 'violations': viol, 'inconclusive': incon, 'replayed': replayed,
            'harnesses': {tag: {'paths': E.paths, 'queries': sum(E.q.values()), 'wall_s': round(time.time() - t0, 2)}}}


def replay_screen(case: Dict[str, Any]) -> Dict[str, Any]:
    """feed the model's byte stream to a fresh real InMemoryScreen over a dict-backed DeviceMemory; compare with a direct
    transcription of the documented layout"""
    common.use_repo()
    import importlib
    from flipjump.interpreter.io_devices import ScreenIO
    importlib.reload(ScreenIO)
    from flipjump.interpreter.io_devices.device_memory import DeviceMemory
    from flipjump.utils.exceptions import IODeviceException
    w, scen, m = case['w'], case['scenario'], case['model']
    g = lambda n, d=0: int(m.get(n, d))  # noqa: E731
    ab, dw = w // 8, 2 * w

    class Mem(DeviceMemory):
        memory_width = w

        def read_word(self, word_address: int) -> int:
            return 0

        def write_word(self, word_address: int, value: int) -> None:
            pass

        def read_data_byte(self, a: int) -> int:
            return (a * 2654435761 >> 7) & 0xFF         # any fixed function of the address
    scr = ScreenIO.InMemoryScreen()
    if scen != 'raw-unattached':
        scr.attach_memory(Mem())
    mem = Mem()
    init = [1, g('WID'), 0, g('HEI'), 0, g('BPP'), g('PSZ'), 0]
    addr = [g(f'AD{i}') for i in range(ab)]
    a = sum(b << (8 * i) for i, b in enumerate(addr))
    what: List[str] = []
    err = None
    try:
        if scen == 'init-palette-update':
            a2 = sum(g(f'AE{i}') << (8 * i) for i in range(ab))
            for b in init + [2] + addr + [3] + [g(f'AE{i}') for i in range(ab)]:
                scr._handle_byte(b)
            ok = g('BPP') in (4, 8) and g('WID') and g('HEI')
            if not ok:
                what.append('a bad init_screen was accepted')
            mask = 15 if g('BPP') == 4 else 255
            want_pal = [tuple(mem.read_data_byte(a + (3 * k + c) * dw) for c in range(3)) for k in range(g('PSZ'))]
            want_pix = [mem.read_data_byte(a2 + k * dw) & mask for k in range(g('WID') * g('HEI'))]
            if list(scr.palette) != want_pal:
                what.append(f'palette {scr.palette} documented {want_pal}')
            if list(scr.pixel_indices) != want_pix or scr.frame_count != 1:
                what.append(f'pixels {scr.pixel_indices} (frames {scr.frame_count}) documented {want_pix} (1 frame)')
            want_rgb = [want_pal[p] if p < len(want_pal) else (0, 0, 0) for p in want_pix]
            if list(scr.last_frame_rgb) != want_rgb:
                what.append(f'rgb {scr.last_frame_rgb} documented {want_rgb}')
        elif scen == 'rectangle':
            for b in [1, 2, 0, 2, 0, 8, 0, 0]:
                scr._handle_byte(b)
            before = [g(f'OLD{k}') for k in range(4)]
            scr.pixel_indices = list(before)
            x = g('RX') + (g('RXH') << 8)
            for b in [4, g('RX'), g('RXH'), g('RY'), 0, g('RW'), 0, g('RH'), 0] + addr:
                scr._handle_byte(b)
            if x + g('RW') > 2 or g('RY') + g('RH') > 2:
                what.append('a rectangle exceeding the screen was accepted')
            want = [mem.read_data_byte(a + (py * 2 + px) * dw) if (x <= px < x + g('RW') and g('RY') <= py < g('RY') + g('RH')) else before[py * 2 + px]
                    for py in range(2) for px in range(2)]
            if list(scr.pixel_indices) != want or scr.frame_count != 1:
                what.append(f'pixels {scr.pixel_indices} documented {want}')
        elif scen in ('raw', 'raw-unattached'):
            n = g('WID') * g('HEI')
            pix = [g(f'PX{k}') for k in range(n)]
            for b in init + [5] + pix:
                scr._handle_byte(b)
            mask = 15 if g('BPP') == 4 else 255
            if not (g('BPP') in (4, 8) and g('WID') and g('HEI')):
                what.append('a bad init_screen was accepted')
            elif list(scr.pixel_indices) != [p & mask for p in pix] or scr.frame_count != 1 or scr._command_buffer:
                what.append(f'pixels {scr.pixel_indices} frames {scr.frame_count} documented {[p & mask for p in pix]}')
        elif scen == 'reinit-raw':
            w1, h1, w2, h2 = (g(n, 1) for n in ('W1', 'H1', 'W2', 'H2'))
            pa = [g(f'PA{k}') for k in range(w1 * h1)]
            pb = [g(f'PB{k}') for k in range(w2 * h2)]
            for b in [1, w1, 0, h1, 0, 8, 0, 0, 5] + pa + [1, w2, 0, h2, 0, 8, 0, 0, 5] + pb:
                scr._handle_byte(b)
            if scr.frame_count != 2 or list(scr.pixel_indices) != pb or scr._command_buffer:
                what.append(f'frames {scr.frame_count}, pixels {scr.pixel_indices}, pending bytes {scr._command_buffer}; documented 2 frames, pixels {pb}, nothing pending')
        elif scen == 'unknown-command':
            scr._handle_byte(g('CMD'))
            what.append(f"unknown command {g('CMD')} accepted")
        elif scen == 'not-initialized':
            for b in [g('CMD', 3)] + addr + [0] * 8:
                scr._handle_byte(b)
            what.append('update before init accepted')
    except IODeviceException as e:
        err = str(e)
        if scen == 'init-palette-update' and g('BPP') in (4, 8) and g('WID') and g('HEI'):
            what.append(f'valid stream rejected: {err}')
        if scen == 'rectangle' and g('RX') + (g('RXH') << 8) + g('RW') <= 2 and g('RY') + g('RH') <= 2:
            what.append(f'valid rectangle rejected: {err}')
        if scen in ('raw', 'raw-unattached') and g('BPP') in (4, 8) and g('WID') and g('HEI'):
            what.append(f'valid raw frame rejected: {err}')
        if scen == 'reinit-raw':
            what.append(f'valid stream (two inits, two raw frames) rejected: {err}')
    except Exception as e:  # noqa: BLE001
        what.append(f'{type(e).__name__}: {e}')
    return {'differs': bool(what), 'what': '; '.join(what) or 'as documented', 'device_error': err}


# ------------------------------------------------------------------------------------------------ entry
def replay(path: str) -> int:
    case = json.loads(open(path).read())
    if case.get('native'):
        from fjv.llsx import c19_native
        return c19_native.replay(case)
    rep = replay_screen(case) if case.get('part') == 'screen' else replay_dev(case)
    print(json.dumps(rep, indent=1, default=str))
    return 1 if rep['differs'] else 0


def run(report: Report, tier: str, only: Optional[str] = None) -> None:
    from flipjump.interpreter.io_devices import device_memory, ScreenIO
    from flipjump.interpreter import fjm_run
    S = ScreenIO.InMemoryScreen
    report.encode(device_memory.ReaderDeviceMemory.read_word, device_memory.ReaderDeviceMemory.write_word, device_memory.DeviceMemory.read_data_byte,
                  device_memory.DeviceMemory.write_data_byte, device_memory.DeviceMemory._jump_word_address, fjm_run._run_featured, fjm_run._run_fast,
                  S._handle_byte, S._command_length, S._execute_command, S._init_screen, S._set_palette, S._update_screen, S._update_screen_raw,
                  S._update_rectangle, S._read_packed_bytes, S._present, S._read_address)
    pyengine.install_format_stubs(report)
    report.stub('IO device of the run loop -> SymIO (C01)', 'last-ops container -> Ring (cuts the loop after one op)',
                'screen: hashlib.sha256 / bytes() inside ScreenIO (frame hash only) -> constants; the DeviceMemory under the screen -> '
                'an arbitrary function bit address -> packed byte (z3 array)')
    report.bounds.update({'device_memory': 'read, program op, read / write (inside a segment), program op, read - all addresses, values and '
                          'the whole machine state symbolic; packed-byte helpers at w >= 16 (read byte, write byte, read word)', 'widths': [8, 16, 32, 64],
                          'screen': 'screens up to 2x2, palettes up to 2 entries, streams: init+set_palette+update_screen, init+update_rectangle '
                                    '(any x,y,w,h incl. a 16-bit x), init+raw frame (attached / not attached), init+raw+init+raw with two symbolic sizes, unknown command, '
                                    'update before init; '
                                    'w in {16, 64}',
                          'native': 'see the native harness entries (Memory_get_word / Memory_set_word / mem_read_word in flat, hybrid, paged)'})
    report.outside += ['sequences of more than one device write', 'device writes outside every segment (engines may differ there; the property '
                       'speaks of in-segment writes)', 'screens larger than 2x2 / PNG encoding / the pygame window / frame timestamps',
                       'whole-program frame equality across engines (follows from (a)+(b)+C01 per op; not run end-to-end here)']
    report.assumptions += ['pyspec.step is the machine definition', 'z3 5.1.0', 'pysym proxies']
    jobs: List[Tuple[str, Any]] = []
    for w in (8, 16, 32, 64):
        for eng in ('featured', 'fast'):
            jobs.append(('dev', (w, eng, 'read-op-read')))
            if tier == 'thorough' or not (w == 64 and eng == 'featured'):       # 9 min alone: thorough tier
                jobs.append(('dev', (w, eng, 'write-op-read')))
        if w >= 16:
            jobs.append(('dev', (w, 'none', 'bytes')))
    for w in ((16, 64) if tier == 'quick' else (16, 32, 64)):
        for scen in ('init-palette-update', 'rectangle', 'raw', 'raw-unattached', 'reinit-raw', 'unknown-command', 'not-initialized'):
            jobs.append(('screen', (w, scen)))
    if only:
        jobs = [j for j in jobs if only in (f'py/{j[1][1]}/w{j[1][0]}/{j[1][2]}' if j[0] == 'dev' else f'screen/w{j[1][0]}/{j[1][1]}')]
    (report.require_witnesses if not only else (lambda *a: None))('dev:read-back-of-the-written-word', 'dev:write-into-a-lazy-zero-word', 'dev:read-back-of-the-written-byte',
                             'dev:op-reads-the-word-the-device-wrote', 'dev:device-reads-the-word-the-op-flipped', 'screen:frame-presented',
                             'screen:rectangle-presented', 'screen:raw-frame-presented', 'screen:device-error', 'screen:reinit')
    common.run_pool(_job, jobs, report)
    from fjv.llsx import c19_native
    c19_native.run(report, tier, only)


def _job(j: Tuple[str, Any]) -> Dict[str, Any]:
    return dev_config(j[1]) if j[0] == 'dev' else screen_config(j[1])
