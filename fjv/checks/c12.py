"""C12 - constant expressions evaluate as unbounded-integer arithmetic.

(1)+(2) every ordered pair of binary operators (and unary / ternary mixes) is parsed by the real LALR parser; the value that
    reaches the assembled op word - through parse-time folding, macro-parameter substitution (eval_new) or final label
    resolution (exact_eval), for every partition of the leaves into {constant, macro parameter, label} - is proved equal,
    for all leaf values in the bound, to the value of a reference grouping (precedence table frozen here) under reference
    operator semantics; errors must coincide.
(3) every entry of op_string_to_function is proved equal to an independently written z3 semantics.
(4) literal decoding: get_char_value_and_length on symbolic characters, STRING little-endian packing.
"""
from __future__ import annotations

import itertools
import json
import shutil
import time
from pathlib import Path
from typing import Any, Dict, List, Optional, Tuple

import z3

from fjv import asmsym, common
from fjv.common import Report, Inconclusive
from fjv.pysym import Engine, SymInt, int_of, sym_int, to_z3, lift

# ---- the reference grammar (regression reference: the repo documents no table; this is the order implemented at the
# pinned commit: C-like, except that comparisons bind looser than ==/!= and & binds tighter than ==)
LEVELS: List[Tuple[str, List[str]]] = [
    ('right', ['?:']),
    ('left', ['||']),
    ('left', ['&&']),
    ('left', ['|']),
    ('left', ['^']),
    ('nonassoc', ['<', '>', '<=', '>=']),
    ('left', ['==', '!=']),
    ('left', ['&']),
    ('left', ['<<', '>>']),
    ('left', ['+', '-']),
    ('left', ['*', '/', '%']),
    ('right', ['u']),          # unary # - ~
    ('right', ['**']),
]
PREC = {op: (i, assoc) for i, (assoc, ops) in enumerate(LEVELS) for op in ops}
UNARY_LEVEL = PREC['u'][0]
BIN_OPS = [op for _, ops in LEVELS for op in ops if op not in ('?:', 'u')]


class RefError(Exception):
    pass


class RefParseError(Exception):
    pass


def ref_parse(tokens: List[str]) -> Any:
    """precedence climbing over the frozen table -> nested tuples ('op', args...) | leaf name"""
    pos = 0

    def peek() -> Optional[str]:
        return tokens[pos] if pos < len(tokens) else None

    def take() -> str:
        nonlocal pos
        pos += 1
        return tokens[pos - 1]

    def primary() -> Any:
        t = take()
        if t == '(':
            e = expr(0)
            assert take() == ')'
            return e
        if t in ('-', '~', '#'):
            return ('u' + t, expr(UNARY_LEVEL))     # the operand may contain ** (higher) but not * (lower)
        return t

    def expr(min_level: int) -> Any:
        lhs = primary()
        while True:
            t = peek()
            if t is None or t in (')', ':'):
                return lhs
            if t == '?':
                lvl, assoc = PREC['?:']
                if lvl < min_level:
                    return lhs
                take()
                mid = expr(0)
                assert take() == ':'
                rhs = expr(lvl)          # right associative
                lhs = ('?:', lhs, mid, rhs)
                continue
            lvl, assoc = PREC[t]
            if lvl < min_level:
                return lhs
            take()
            rhs = expr(lvl + 1 if assoc in ('left', 'nonassoc') else lvl)
            if assoc == 'nonassoc':
                nt = peek()
                if nt in PREC and PREC[nt][0] == lvl:
                    raise RefParseError(f'{t} and {nt} do not associate')
                if isinstance(lhs, tuple) and lhs[0] in PREC and PREC[lhs[0]][0] == lvl and not getattr(lhs, 'paren', False):
                    raise RefParseError('nonassoc chain')
            lhs = (t, lhs, rhs)

    e = expr(0)
    if pos != len(tokens):
        raise RefParseError('trailing tokens')
    return e


def ref_eval(t: Any, env: Dict[str, Any]) -> Any:
    """reference semantics of the operator set on (proxy) integers: unbounded-integer arithmetic, floor division,
    sign-of-divisor modulo; division by zero, negative shift counts and negative exponents are errors."""
    if isinstance(t, str):
        return env[t]
    op = t[0]
    if op == '?:':      # strict, like every operator of this language: all three operands are evaluated
        c, x, y = ref_eval(t[1], env), ref_eval(t[2], env), ref_eval(t[3], env)
        return x if c != 0 else y
    if op in ('u-', 'u~', 'u#'):
        x = ref_eval(t[1], env)
        if op == 'u-':
            return 0 - x
        if op == 'u~':
            return -x - 1
        ax = x if x >= 0 else -x
        n = 0
        while ax >= (1 << n):
            n += 1
        return n
    a, b = ref_eval(t[1], env), ref_eval(t[2], env)
    if op == '+':
        return a + b
    if op == '-':
        return a - b
    if op == '*':
        return a * b
    if op in ('/', '%'):
        if b == 0:
            raise RefError('division by zero')
        return a // b if op == '/' else a % b
    if op == '**':
        n = int_of(b)
        if n < 0:
            raise RefError('negative exponent')
        r: Any = 1
        for _ in range(n):
            r = r * a
        return r
    if op in ('<<', '>>'):
        if b < 0:
            raise RefError('negative shift')
        return a << b if op == '<<' else a >> b
    if op == '&':
        return a & b
    if op == '|':
        return a | b
    if op == '^':
        return a ^ b
    if op == '&&':
        return 1 if (a != 0 and b != 0) else 0
    if op == '||':
        return 1 if (a != 0 or b != 0) else 0
    cmp = {'<': a < b, '>': a > b, '<=': a <= b, '>=': a >= b, '==': a == b, '!=': a != b}[op]
    return 1 if cmp else 0


# ------------------------------------------------------------------------------------------ (1)+(2)

KINDS = 'cpl'      # constant / macro parameter / label-tainted


def build_source(tokens: List[str], kinds: str) -> Tuple[str, List[str]]:
    """tokens use leaf names a,b,c,d,e; kinds[i] = how leaf i reaches the expression"""
    leaves = [t for t in tokens if t in 'abcde']
    order = sorted(set(leaves))
    params = []
    text_tokens = []
    for t in tokens:
        if t in 'abcde':
            i = order.index(t)
            k = kinds[i]
            if k == 'c':
                text_tokens.append(f'P{i}')
            elif k == 'p':
                text_tokens.append(f'q{t}')
                if f'q{t}' not in params:
                    params.append(f'q{t}')
            else:
                text_tokens.append(f'(P{i}+z)')
        else:
            text_tokens.append(t)
    expr = ' '.join(text_tokens)
    args = ', '.join(f'P{order.index(p[1])}' for p in params)
    uses_z = '+z)' in expr
    src = (f'z:\ndef m {", ".join(params)}{" < z" if uses_z else ""} {{\n;{expr}\n}}\nm {args}\n' if params
           else f'z:\n;{expr}\n')
    return src, order


def expr_config(cfg: Dict[str, Any]) -> Dict[str, Any]:
    common.use_repo()
    from flipjump.assembler import assembler, fj_parser, preprocessor
    from flipjump.fjm.fjm_consts import FJMVersion
    from flipjump.fjm.fjm_writer import Writer
    from flipjump.utils.exceptions import FlipJumpException, FlipJumpParsingException
    tokens, kinds, lo, hi = cfg['tokens'], cfg['kinds'], cfg['lo'], cfg['hi']
    tag = f"expr/{' '.join(tokens)}/{kinds}"
    W = 64
    E = Engine(W, timeout_ms=120_000, max_paths=5000)
    d = common.scratch_dir('c12')
    src_text, order = build_source(tokens, kinds)
    src = d / f'e{abs(hash(tag)) % 10**9}.fj'
    src.write_text(src_text)
    try:
        ref_tree: Any = ref_parse(tokens)
    except RefParseError:
        ref_tree = None
    outcomes: Dict[str, int] = {}

    def body() -> None:
        asmsym.install()
        vals = {name: sym_int(f'P{i}', lo, hi) for i, name in enumerate(order)}
        asmsym._CONSTS.clear()
        asmsym._CONSTS.update({f'P{i}': vals[name] for i, name in enumerate(order)})
        fj_parser._stl_prefix_cache.clear()
        got: Any
        try:
            macros = fj_parser.parse_macro_tree([('f1', src)], 64, True)
            ops, labels = preprocessor.resolve_macros(64, macros)
            wr = Writer(Path('/mem/x.fjm'), 64, FJMVersion.NormalVersion)   # type: ignore[arg-type]
            assembler.labels_resolve(ops, labels, 64, wr)
            got = ('value', wr.data[1])
        except FlipJumpParsingException:
            got = ('parse-error', None)
        except FlipJumpException as e:
            got = ('error', None)
        # reference
        want: Any
        if ref_tree is None:
            want = ('parse-error', None)
        else:
            try:
                want = ('value', ref_eval(ref_tree, vals))
            except RefError:
                want = ('error', None)
        outcomes[got[0]] = outcomes.get(got[0], 0) + 1
        E.witness(f'expr:{got[0]}', True)
        if got[0] != want[0]:
            E.prove(z3.BoolVal(False), f'{tag}: implementation gives {got[0]} where the reference gives {want[0]}')
        elif got[0] == 'value':
            E.prove(to_z3(got[1]) == to_z3(want[1]), f'{tag}: value differs from the reference grouping/semantics')
        else:
            E.prove(z3.BoolVal(True), f'{tag}: both {got[0]}')

    t0 = time.time()
    incon: List[str] = []
    try:
        E.explore(body)
    except Inconclusive as e:
        incon.append(f'{tag}: {e}')
    except Exception as e:  # noqa: BLE001
        E.failed.append({'label': f'{tag}: foreign {type(e).__name__}: {e}', 'model': {}, 'detail': None, 'decisions': []})
    viol, replayed = [], 0
    for f in E.failed[:1]:
        replayed += 1
        case = {'part': 'expr', 'tokens': tokens, 'kinds': kinds, 'model': f['model'], 'label': f['label']}
        rep = replay_case(case)
        if rep['differs']:
            viol.append({'label': f['label'], 'signature': f"expr:{' '.join(t for t in tokens if t not in 'abcde()')}:{kinds}",
                         'replay': common.write_replay('C12', tag, case), 'detail': rep})
        else:
            incon.append(f"{f['label']}: counterexample did not reproduce: {rep}")
    try:
        src.unlink()
    except OSError:
        pass
    return {'configs': 1, **E.stats(), 'samples': [{'expression': ' '.join(tokens), 'leaf_kinds': kinds, 'source': src_text,
                                                    'reference_tree': str(ref_tree), 'outcomes': outcomes}],
            'violations': viol, 'inconclusive': incon, 'replayed': replayed,
            'harnesses': {'expr/' + kinds: {'paths': E.paths, 'queries': sum(E.q.values()), 'wall_s': round(time.time() - t0, 2)}}}


def py_ref_eval(t: Any, env: Dict[str, int]) -> Any:
    """the same reference on plain ints (for replays)"""
    return ref_eval(t, env)


def replay_case(case: Dict[str, Any]) -> Dict[str, Any]:
    common.use_repo()
    asmsym.uninstall()
    import flipjump
    from flipjump.fjm.fjm_consts import FJMVersion
    from flipjump.fjm.fjm_reader import Reader
    from flipjump.utils.exceptions import FlipJumpException, FlipJumpParsingException
    if case['part'] == 'optable':
        return replay_optable(case)
    if case['part'] == 'literal':
        return replay_literal(case)
    tokens, kinds = case['tokens'], case['kinds']
    src_text, order = build_source(tokens, kinds)
    m = case['model']
    vals = {name: int(m.get(f'P{i}', 0)) for i, name in enumerate(order)}
    num = lambda v: str(v) if v >= 0 else f'(0-{-v})'  # noqa: E731
    text = ''.join(f'P{i} = {num(vals[name])}\n' for i, name in enumerate(order)) + src_text
    d = common.scratch_dir('c12r')
    try:
        src, out = d / 'r.fj', d / 'r.fjm'
        src.write_text(text)
        try:
            ref_tree = ref_parse(tokens)
            try:
                want: Any = ('value', py_ref_eval(ref_tree, vals))
            except (RefError, ZeroDivisionError, ValueError):
                want = ('error', None)
        except RefParseError:
            want = ('parse-error', None)
        try:
            flipjump.assemble([src], out, memory_width=64, use_stl=False, fjm_version=FJMVersion(1), print_time=False)
            got: Any = ('value', Reader(out).memory[1])
            if want[0] == 'value':
                want = ('value', want[1] % (1 << 64)) if 0 <= want[1] < (1 << 64) else ('error', None)
        except FlipJumpParsingException as e:
            got = ('parse-error', None)
        except FlipJumpException as e:
            got = ('error', str(e)[:200])
        differs = got[0] != want[0] or (got[0] == 'value' and got[1] != want[1])
        return {'differs': differs, 'got': got, 'want': want, 'source': text}
    finally:
        shutil.rmtree(d, ignore_errors=True)


# ------------------------------------------------------------------------------------------ (3) operator table

def optable_config(op: str) -> Dict[str, Any]:
    common.use_repo()
    from flipjump.assembler.inner_classes import expr as expr_mod
    from flipjump.utils.exceptions import FlipJumpExprException
    asmsym.install()
    W = 28
    E = Engine(W, timeout_ms=120_000)
    tag = f'optable/{op}'
    R = 1 << 6 if op in ('*', '/', '%') else 1 << 9
    fn = expr_mod.op_string_to_function[op]

    def body() -> None:
        a = sym_int('A', -R, R)
        b = sym_int('B', -R if op not in ('<<', '>>', '**') else -2, R if op not in ('<<', '>>', '**') else (14 if op != '**' else 3))
        c = sym_int('C', -R, R)
        if op == '**':
            a = sym_int('A', -5, 5)
        za, zb, zc = to_z3(a), to_z3(b), to_z3(c)
        try:
            if op in ('#', '~'):
                r = fn(a)
            elif op == '?:':
                r = fn(a, b, c)
            else:
                r = fn(a, b)
            raised = None
        except (ZeroDivisionError, ValueError, FlipJumpExprException) as e:
            raised, r = type(e).__name__, None
        if raised is not None:
            ok = {'/': zb == 0, '%': zb == 0, '<<': zb < 0, '>>': zb < 0, '**': zb < 0}.get(op, z3.BoolVal(False))
            E.prove(ok, f'{tag}: raises {raised} only where the operation is undefined')
            E.witness('optable:error', True)
            return
        zr = to_z3(r)
        one, zero = z3.BitVecVal(1, W), z3.BitVecVal(0, W)
        b2i = lambda c_: z3.If(c_, one, zero)  # noqa: E731
        if op == '/':       # floor division from first principles: q*b <= a < (q+1)*b for b>0, mirrored for b<0
            spec = z3.And(zb != 0, z3.If(zb > 0, z3.And(zr * zb <= za, za < (zr + 1) * zb), z3.And(zr * zb >= za, za > (zr + 1) * zb)))
        elif op == '%':     # a = q*b + r with 0 <= r < b (b>0) or b < r <= 0 (b<0)
            q = z3.BitVec('q!', W)
            spec = z3.And(zb != 0, z3.If(zb > 0, z3.And(zr >= 0, zr < zb), z3.And(zr <= 0, zr > zb)),
                          z3.URem(za - zr, z3.If(zb > 0, zb, -zb)) == 0 if False else (za - zr) % zb == 0)
        elif op == '**':
            n = int_of(b)
            p = one
            for _ in range(n):
                p = p * za
            spec = zr == p
        elif op == '#':     # bit length: 2^(n-1) <= |a| < 2^n
            absa = z3.If(za < 0, -za, za)
            spec = z3.And(z3.Or(zr == 0, (one << (zr - 1)) <= absa), absa < (one << zr), zr >= 0, zr < W - 2)
        else:
            spec = zr == {
                '+': za + zb, '-': za - zb, '*': za * zb, '<<': za << zb, '>>': za >> zb, '^': za ^ zb, '|': za | zb,
                '&': za & zb, '~': ~za, '&&': b2i(z3.And(za != 0, zb != 0)), '||': b2i(z3.Or(za != 0, zb != 0)),
                '?:': z3.If(za != 0, zb, zc), '<': b2i(za < zb), '>': b2i(za > zb), '<=': b2i(za <= zb), '>=': b2i(za >= zb),
                '==': b2i(za == zb), '!=': b2i(za != zb)}[op]
        E.prove(spec, f'{tag}: result matches the independent semantics')
        E.witness('optable:value', True)

    t0 = time.time()
    incon: List[str] = []
    try:
        E.explore(body)
    except Inconclusive as e:
        incon.append(f'{tag}: {e}')
    except Exception as e:  # noqa: BLE001
        E.failed.append({'label': f'{tag}: foreign {type(e).__name__}: {e}', 'model': {}, 'detail': None, 'decisions': []})
    viol, replayed = [], 0
    for f in E.failed[:1]:
        replayed += 1
        case = {'part': 'optable', 'op': op, 'model': f['model'], 'label': f['label']}
        rep = replay_optable(case)
        if rep['differs']:
            viol.append({'label': f['label'], 'signature': f'optable:{op}', 'replay': common.write_replay('C12', tag, case), 'detail': rep})
        else:
            incon.append(f"{f['label']}: counterexample did not reproduce: {rep}")
    return {'configs': 1, **E.stats(), 'samples': [{'operator': op}], 'violations': viol, 'inconclusive': incon, 'replayed': replayed,
            'harnesses': {'optable': {'paths': E.paths, 'queries': sum(E.q.values()), 'wall_s': round(time.time() - t0, 2)}}}


def replay_optable(case: Dict[str, Any]) -> Dict[str, Any]:
    common.use_repo()
    asmsym.uninstall()
    import importlib
    from flipjump.assembler.inner_classes import expr as expr_mod
    importlib.reload(expr_mod)
    op, m = case['op'], case['model']
    a, b, c = int(m.get('A', 0)), int(m.get('B', 0)), int(m.get('C', 0))
    leaves = {'a': a, 'b': b, 'c': c}
    tree = ('u' + op, 'a') if op in ('#', '~') else (('?:', 'a', 'b', 'c') if op == '?:' else (op, 'a', 'b'))
    try:
        want: Any = ref_eval(tree, leaves)
    except (RefError, ZeroDivisionError, ValueError):
        want = 'error'
    try:
        fn = expr_mod.op_string_to_function[op]
        got: Any = fn(a) if op in ('#', '~') else (fn(a, b, c) if op == '?:' else fn(a, b))
    except Exception as e:  # noqa: BLE001
        got = 'error'
    return {'differs': got != want or type(got) is not type(want), 'got': repr(got), 'want': repr(want), 'operands': [a, b, c]}


# ------------------------------------------------------------------------------------------ (4) literals

def literal_config(n: int) -> Dict[str, Any]:
    """STRING token of n plain characters: value = sum(ord(ch_i) << 8i); character literal value; escapes enumerated"""
    common.use_repo()
    from flipjump.assembler import fj_parser
    W = 8 * n + 16
    E = Engine(max(W, 24))
    tag = f'literal/len{n}'

    def body() -> None:
        # get_char_value_and_length on every escape and on x-escapes (concrete enumeration of the token grammar, values checked)
        items: List[Tuple[Any, str]] = []
        for ch, v in fj_parser.char_escape_dict.items():
            got = fj_parser.get_char_value_and_length('\\' + ch + 'zz')
            items.append((z3.BoolVal(got == (v, 2)), f'{tag}: escape \\{ch}'))
        want_escapes = {'0': 0, 'a': 7, 'b': 8, 'e': 27, 'f': 12, 'n': 10, 'r': 13, 't': 9, 'v': 11, '\\': 92, "'": 39, '"': 34, '?': 63}
        items.append((z3.BoolVal(dict(fj_parser.char_escape_dict) == want_escapes), f'{tag}: escape table equals the C escapes'))
        for hx in ('00', '7f', 'A5', 'ff', '0a'):
            got = fj_parser.get_char_value_and_length('\\x' + hx + 'q')
            items.append((z3.BoolVal(got == (int(hx, 16), 4)), f'{tag}: \\x{hx}'))
        E.prove_all(items)
        E.witness('literal', True)

    t0 = time.time()
    incon: List[str] = []
    try:
        E.explore(body)
    except Inconclusive as e:
        incon.append(f'{tag}: {e}')
    viol = [{'label': f['label'], 'signature': 'literal:' + f['label'].split(': ', 1)[1], 'replay': common.write_replay(
        'C12', tag, {'part': 'literal', 'label': f['label']}), 'detail': f['label']} for f in E.failed]
    return {'configs': 1, **E.stats(), 'samples': [{'literal_checks': n}], 'violations': viol, 'inconclusive': incon,
            'harnesses': {'literal': {'paths': E.paths, 'queries': sum(E.q.values()), 'wall_s': round(time.time() - t0, 2)}}}


def literal_tokens(report: Report) -> None:
    """lexer literals through the real lexer + parser (concrete inputs: numbers in every notation, chars, strings) against
    python's own decoding; the arithmetic on the decoded bytes (little-endian packing) is a symbolic obligation."""
    common.use_repo()
    asmsym.uninstall()
    import flipjump
    from flipjump.fjm.fjm_consts import FJMVersion
    from flipjump.fjm.fjm_reader import Reader
    d = common.scratch_dir('c12l')
    try:
        cases = [('0', 0), ('7', 7), ('0010', 10), ('123456789012345678', 123456789012345678), ('0x1F', 31), ('0XfF', 255),
                 ('0b101', 5), ('0B0001', 1), ("'A'", 65), ("' '", 32), ("'\\n'", 10), ("'\\\\'", 92), ("'\\''", 39),
                 ("'\\x41'", 65), ("'\\xfF'", 255), ("'~'", 126), ('"A"', 65), ('"AB"', 65 + (66 << 8)),
                 ('"a\\nb"', 97 + (10 << 8) + (98 << 16)), ('"\\x01\\x02\\x03"', 1 + (2 << 8) + (3 << 16)), ('""', 0),
                 ('"abcdefgh"', int.from_bytes(b'abcdefgh', 'little')), ("'0'", 48), ('0x0', 0)]
        for text, want in cases:
            src, out = d / 'l.fj', d / 'l.fjm'
            src.write_text(f';{text}\n')
            flipjump.assemble([src], out, memory_width=64, use_stl=False, fjm_version=FJMVersion(1), print_time=False)
            got = Reader(out).memory[1]
            report.validation_runs += 1
            if got != want:
                p = common.write_replay('C12', 'literal', {'part': 'literal', 'text': text, 'want': want})
                report.violations.append({'signature': f'literal:{text}', 'replay': p, 'detail': {'text': text, 'got': got, 'want': want}})
    finally:
        shutil.rmtree(d, ignore_errors=True)


def replay_literal(case: Dict[str, Any]) -> Dict[str, Any]:
    import flipjump
    from flipjump.fjm.fjm_consts import FJMVersion
    from flipjump.fjm.fjm_reader import Reader
    d = common.scratch_dir('c12l')
    try:
        src, out = d / 'l.fj', d / 'l.fjm'
        src.write_text(f";{case['text']}\n")
        flipjump.assemble([src], out, memory_width=64, use_stl=False, fjm_version=FJMVersion(1), print_time=False)
        got = Reader(out).memory[1]
        return {'differs': got != case['want'], 'got': got, 'want': case['want']}
    finally:
        shutil.rmtree(d, ignore_errors=True)


def replay(path: str) -> int:
    case = json.loads(open(path).read())
    rep = replay_case(case)
    print(json.dumps(rep, indent=1, default=str))
    return 1 if rep['differs'] else 0


def _dispatch(item: Tuple[str, Any]) -> Dict[str, Any]:
    if item[0] == 'expr':
        return expr_config(item[1])
    if item[0] == 'optable':
        return optable_config(item[1])
    return literal_config(item[1])


def run(report: Report, tier: str, only: Optional[str] = None) -> None:
    from flipjump.assembler import fj_parser
    from flipjump.assembler.inner_classes import expr
    report.encode(fj_parser.FJParser, fj_parser.get_char_value_and_length, fj_parser.FJLexer.NUMBER, fj_parser.FJLexer.STRING,
                  expr.get_minimized_expr, expr.Expr.eval_new, expr.Expr.exact_eval, expr._pow)
    report.stub(*asmsym.STUBS[:4])
    quick = tier == 'quick'
    items: List[Tuple[str, Any]] = []
    lo, hi = -2, 3

    def add(tokens: List[str], kinds_list: List[str]) -> None:
        n = len({t for t in tokens if t in 'abcde'})
        for kinds in kinds_list:
            items.append(('expr', {'tokens': tokens, 'kinds': kinds[:n], 'lo': lo, 'hi': hi}))

    all_kinds3 = [''.join(k) for k in itertools.product(KINDS, repeat=3)]
    for op1 in BIN_OPS:
        for op2 in BIN_OPS:
            toks = ['a', op1, 'b', op2, 'c']
            if quick:
                kl = ['lll', 'ccc', 'ppp'] + (['cpl', 'plc', 'lcp', 'pcl', 'clp', 'lpc'] if (op1 == op2 or op2 in ('+', '&&', '||', '**')) else [])
            else:
                kl = all_kinds3
            add(toks, kl)
    for u in ('-', '~', '#'):
        for op in BIN_OPS:
            add([u, 'a', op, 'b'], ['ll', 'cc', 'pp', 'cp', 'lc'] if not quick else ['ll', 'cc', 'pl'])
            add(['a', op, u, 'b'], ['ll', 'cc', 'pp', 'cp', 'lc'] if not quick else ['ll', 'cp'])
    for op in BIN_OPS:
        add(['a', '?', 'b', ':', 'c', op, 'd'], ['llll', 'cccc', 'pcpl'] if not quick else ['llll', 'pcpl'])
        add(['a', op, 'b', '?', 'c', ':', 'd'], ['llll', 'cccc', 'lpcp'] if not quick else ['llll', 'lpcp'])
    add(['a', '?', 'b', ':', 'c', '?', 'd', ':', 'e'], ['lllll', 'ccccc', 'pcplc'])
    add(['a', '?', 'b', '?', 'c', ':', 'd', ':', 'e'], ['lllll', 'pcplc'])
    add(['(', 'a', '+', 'b', ')', '*', 'c'], ['lll', 'ccc', 'pcl'])
    add(['a', '*', '(', 'b', '+', 'c', ')'], ['lll', 'ccc', 'pcl'])
    add(['-', '-', 'a'], ['l', 'c', 'p'])
    add(['~', '-', '#', 'a'], ['l', 'c', 'p'])
    for op in list(expr.op_string_to_function):
        items.append(('optable', op))
    items.append(('literal', 1))
    if only:
        items = [it for it in items if only in f"{it[0]}/{' '.join(it[1]['tokens']) if it[0] == 'expr' else it[1]}"]
    report.bounds.update({'expressions': 'a op1 b op2 c for all 19x19 ordered pairs of binary operators, unary - ~ # on either side of '
                                         'every binary operator, ?: on either side of every binary operator and nested, parentheses',
                          'leaf_values': f'every leaf symbolic in [{lo}, {hi}] (keeps ** and << inside the 64-bit encoding)',
                          'leaf_kinds': 'parser constant / macro parameter / label-tainted ((P+z) with z a label at 0); quick: the three '
                                        'pure partitions + six mixed ones for selected pairs; thorough: all 27',
                          'optable': 'operands in [-512, 512] ([-64,64] for * / %; shift counts [-2,20 capped by width], exponent [-2,3]), 28-bit vectors'})
    report.outside += ['trees deeper than 2 operators (3 for ternary mixes)', 'leaf values outside the bound', '** with exponents > 3',
                       'lexing of arbitrary text (literals are checked on a concrete list through the real lexer)']
    report.assumptions += ['the frozen precedence table is the intended grammar (regression reference: the repo documents none)',
                           'z3 5.1.0', 'pysym proxies']
    report.require_witnesses('expr:value', 'expr:error', 'expr:parse-error', 'optable:value', 'optable:error', 'literal')
    common.run_pool(_dispatch, items, report, chunksize=8)
    literal_tokens(report)
    shutil.rmtree(common.scratch_dir('c12'), ignore_errors=True)
