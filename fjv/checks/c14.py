"""C14 - every assembly failure is a specific library diagnostic.

pysym runs the whole real assembler.assemble() (parser with parse-time folding, preprocessor, labels_resolve, Writer)
on concrete statement skeletons whose numeric operands are symbolic, with every operator placed at every evaluation
stage.  On every path the outcome must be success or a FlipJumpException whose text is not the generic
"Unknown exception during assembling" funnel; a failed assembly must not leave an output file that loads.
"""
from __future__ import annotations

import json
import shutil
import time
from pathlib import Path
from typing import Any, Dict, List, Optional, Tuple

import z3

from fjv import asmsym, common
from fjv.common import Report, Inconclusive
from fjv.pysym import Engine, sym_int

BIN_OPS = ['+', '-', '*', '/', '%', '**', '<<', '>>', '^', '|', '&', '&&', '||', '<', '>', '<=', '>=', '==', '!=']
BIG = 1 << 66


def op_ranges(op: str) -> Tuple[int, Tuple[int, int], Tuple[int, int]]:
    """-> (W, range of left operand, range of right operand)"""
    if op in ('/', '%'):
        return 40, (-(1 << 20), 1 << 20), (-(1 << 20), 1 << 20)     # only used at w=8 (the operator is width-independent)
    if op == '**':
        return 96, (-3, 3), (-2, 5)
    if op == '<<':
        return 128, (-(1 << 20), 1 << 20), (-2, 70)
    if op == '>>':
        return 96, (-BIG, BIG), (-2, 140)
    if op == '*':
        return 96, (-(1 << 34), 1 << 34), (-(1 << 34), 1 << 34)
    return 96, (-BIG, BIG), (-BIG, BIG)


# (stage name, source template with {e} = the expression text)
STAGES: List[Tuple[str, str]] = [
    ('parse-fold-jump', ';{e}\n'),
    ('parse-fold-flip', '{e};\n'),
    ('const-def', 'x = {e}\n;x\n'),
    ('macro-arg', 'def m a {{\n;a {op} P1\n}}\nm P0\n'),
    ('macro-arg-folded-at-call', 'def m a {{\n;a\n}}\nm {e}\n'),
    ('rep-count', 'def m {{\n;\n}}\nrep(({e}) & 3, i) m\n'),
    ('rep-iterator', 'def m a {{\n;a\n}}\nrep(2, i) m (P0+i) {op} (P1-i)\n'),
    ('pad-operand', ';\npad (({e}) & 3) + 1\n;\n'),
    ('pad-operand-raw', ';\npad {e}\n;\n'),
    ('reserve-operand', ';\nreserve (({e}) & 1) * w\n'),
    ('segment-operand', ';\nsegment ((({e}) & 3) + 4) * 2 * w\n;\n'),
    ('label-resolve', 'L:\n;(L+P0) {op} P1\n'),
    ('wflip-value', 'wflip 4*w, ({e}) & 5\n'),
    ('wflip-value-raw', 'wflip 4*w, {e}\n'),
]
UNARY = [('neg', '(0-P0)'), ('uminus', '-P0'), ('not', '~P0'), ('bitlen', '#P0'), ('ternary', 'P0 ? P1 : P2'),
         ('ternary-nested', 'P0 ? P1 ? 1 : 2 : P2'), ('paren', '(P0)')]


def build_configs(tier: str) -> List[Dict[str, Any]]:
    cfgs: List[Dict[str, Any]] = []
    widths = (8, 64) if tier == 'quick' else (8, 16, 32, 64)
    for w in widths:
        for op in BIN_OPS:
            W, r0, r1 = op_ranges(op)
            if op in ('/', '%') and w != 8:
                continue
            for stage, tmpl in STAGES:
                if tier == 'quick' and w == 8 and op not in ('/', '%') and stage not in (
                        'parse-fold-jump', 'label-resolve', 'macro-arg', 'wflip-value-raw'):
                    continue
                src = tmpl.format(e=f'P0 {op} P1', op=op)
                if stage in ('pad-operand-raw',):      # the operand is a count of ops to emit: keep it small (resources)
                    r0, r1 = (max(r0[0], -6), min(r0[1], 6)), (max(r1[0], -6), min(r1[1], 3 if op in ('<<', '**') else 6))
                if stage == 'wflip-value-raw':   # every bit of the value is branched on: keep the value space small
                    if tier == 'quick' and op not in ('+', '-', '<<', '|'):
                        continue
                    r0, r1 = (max(r0[0], -20), min(r0[1], 20)), (max(r1[0], -20), min(r1[1], 9 if op == '<<' else 20))
                cfgs.append({'name': f'w{w}/{stage}/{op}', 'w': w, 'version': 1 if w != 64 else 3, 'src': src, 'W': W,
                             'ranges': {'P0': r0, 'P1': r1}})
        for uname, e in UNARY:
            for stage, tmpl in STAGES[:3] + [STAGES[4]]:
                if tier == 'quick' and w == 8 and stage != 'parse-fold-jump':
                    continue
                cfgs.append({'name': f'w{w}/{stage}/{uname}', 'w': w, 'version': 1, 'src': tmpl.format(e=e, op='+'), 'W': 96,
                             'ranges': {'P0': (-BIG, BIG), 'P1': (-BIG, BIG), 'P2': (-BIG, BIG)}})
        # plain op words of any magnitude (range of the format), all versions
        for version in (0, 1, 2, 3):
            cfgs.append({'name': f'w{w}/op-words/v{version}', 'w': w, 'version': version, 'src': 'P0;P1\n;\nP2;\n', 'W': 96,
                         'ranges': {'P0': (-BIG, BIG), 'P1': (-BIG, BIG), 'P2': (-BIG, BIG)}})
        cfgs.append({'name': f'w{w}/wflip-address', 'w': w, 'version': 2, 'src': 'wflip (P0 & 3) * w - w, 3\n', 'W': 96,
                     'ranges': {'P0': (-BIG, BIG)}})
    return cfgs


def one(cfg: Dict[str, Any]) -> Dict[str, Any]:
    common.use_repo()
    from flipjump.utils.exceptions import FlipJumpReadFjmException
    E = Engine(cfg['W'], timeout_ms=120_000, max_paths=4000)
    tag = cfg['name']
    d = common.scratch_dir('c14')
    src = d / f"p{abs(hash(tag)) % 10**8}.fj"
    src.write_text(cfg['src'])
    outcomes: Dict[str, int] = {}

    def body() -> None:
        consts = {k: sym_int(k, lo, hi) for k, (lo, hi) in cfg['ranges'].items()}
        res = asmsym.assemble([('f1', src)], cfg['w'], cfg['version'], consts)
        if res.ok:
            kind = 'ok'
        else:
            kind = res.exc_kind()
        outcomes[kind] = outcomes.get(kind, 0) + 1
        E.witness(f'c14:{kind.split(":")[0]}', True)
        if kind in ('ok', 'library-specific'):
            E.prove(z3.BoolVal(True), f'{tag}: outcome is success or a specific library diagnostic')
        else:
            E.prove(z3.BoolVal(False), f'{tag}: assembly failed with {kind} ({str(res.exc)[:80]!r} <- {res.exc.__cause__!r})'[:300])
        if not res.ok and res.file_written:
            try:
                asmsym.read_back(res)
                E.prove(z3.BoolVal(False), f'{tag}: failed assembly left an output file that loads')
            except FlipJumpReadFjmException:
                E.prove(z3.BoolVal(False), f'{tag}: failed assembly left a (damaged) output file behind')

    t0 = time.time()
    incon: List[str] = []
    try:
        E.explore(body)
    except Inconclusive as e:
        incon.append(f'{tag}: {e}')
    viol, replayed, seen = [], 0, set()
    for f in E.failed:
        key = f['label'].split(' (')[0]
        if key in seen:
            continue
        seen.add(key)
        replayed += 1
        case = {'w': cfg['w'], 'version': cfg['version'], 'src': cfg['src'], 'model': f['model'], 'label': f['label']}
        rep = replay_case(case)
        if rep['differs']:
            stage_op = tag.split('/', 1)[1]
            viol.append({'label': f['label'], 'signature': f"{stage_op}:{rep['kind']}",
                         'replay': common.write_replay('C14', tag, case), 'detail': rep})
        else:
            incon.append(f"{f['label']}: counterexample did not reproduce: {rep}")
    try:
        src.unlink()
    except OSError:
        pass
    return {'configs': 1, **E.stats(), 'samples': [{'config': tag, 'source': cfg['src'], 'outcomes': outcomes}], 'violations': viol,
            'inconclusive': incon, 'replayed': replayed,
            'harnesses': {tag.split('/')[1]: {'paths': E.paths, 'queries': sum(E.q.values()), 'wall_s': round(time.time() - t0, 2)}}}


def num(v: int) -> str:
    return str(v) if v >= 0 else f'(0-{-v})'


def replay_case(case: Dict[str, Any]) -> Dict[str, Any]:
    """substitute the model's numbers into the text and run the public API with everything real"""
    common.use_repo()
    asmsym.uninstall()
    import flipjump
    from flipjump.fjm.fjm_consts import FJMVersion
    from flipjump.fjm.fjm_reader import Reader
    from flipjump.utils.exceptions import FlipJumpException
    d = common.scratch_dir('c14r')
    try:
        text = '\n'.join(f'{k} = {num(int(v))}' for k, v in sorted(case['model'].items()) if k.startswith('P')) + '\n' + case['src']
        src = d / 'r.fj'
        out = d / 'r.fjm'
        src.write_text(text)
        kind, msg = 'ok', ''
        try:
            flipjump.assemble([src], out, memory_width=case['w'], use_stl=False, fjm_version=FJMVersion(case['version']),
                              print_time=False)
        except FlipJumpException as e:
            kind = 'library-generic' if 'Unknown exception during assembling' in str(e) else 'library-specific'
            msg = f'{e} <- {e.__cause__!r}'
        except Exception as e:  # noqa: BLE001
            kind, msg = f'foreign:{type(e).__name__}', str(e)
        left = out.exists()
        loads = False
        if left and kind != 'ok':
            try:
                Reader(out)
                loads = True
            except Exception:  # noqa: BLE001
                pass
        differs = kind not in ('ok', 'library-specific') or (kind != 'ok' and left)
        return {'differs': differs, 'kind': kind, 'message': msg[:300], 'output_file_left_behind': left and kind != 'ok',
                'left_file_loads': loads, 'source': text}
    finally:
        shutil.rmtree(d, ignore_errors=True)


def replay(path: str) -> int:
    case = json.loads(open(path).read())
    rep = replay_case(case)
    print(json.dumps(rep, indent=1, default=str))
    return 1 if rep['differs'] else 0


RECURSION_SHAPES = {
    'call': 'def f {\n f\n}\nf\n',
    'rep': 'def f {\n rep(1, i) f\n}\nf\n',
    'call-rep-alternation': 'def f {\n rep(1, i) g\n}\ndef g {\n f\n}\nf\n',
    'rep-600-deep-valid': 'def f n {\n ;\n rep(n > 0, i) f n-1\n}\nf 600\n',
}


def recursion_validation(report: Report) -> None:
    """NOT solver-decided (the quantity is a nesting depth of the expansion, a discrete structure): the symbolic runs above assume
    that a runaway or deep macro recursion is stopped by the preprocessor's own depth guard; this runs each recursion shape (plain
    call, through rep, call/rep alternation, a valid 600-deep rep recursion) through the public API at the default depth
    and requires the specific diagnostic / success - never the generic funnel, never CPython's RecursionError."""
    import multiprocessing as mp
    ctx = mp.get_context('fork')
    for name, text in RECURSION_SHAPES.items():
        q = ctx.Queue()
        case = {'src': text, 'model': {}, 'w': 64, 'version': 3, 'label': f'recursion/{name}'}
        p = ctx.Process(target=lambda: q.put(replay_case(case)))
        p.start()
        try:
            rep = q.get(timeout=120)
        except Exception:  # noqa: BLE001
            rep = {'differs': True, 'kind': f'no result (exit code {p.exitcode})', 'message': ''}
        p.join(5)
        if p.is_alive():
            p.kill()
        report.validation_runs += 1
        want_ok = name.endswith('valid')
        bad = rep['differs'] or (rep['kind'] == 'ok') != want_ok or (not want_ok and 'recursive depth' not in rep.get('message', ''))
        if bad:
            report.violations.append({'label': f'recursion/{name}: {rep["kind"]}: {rep.get("message", "")[:200]}',
                                      'signature': f'c14:recursion:{name}:{rep["kind"]}',
                                      'replay': common.write_replay('C14', f'recursion_{name}', case), 'detail': rep})


def run(report: Report, tier: str, only: Optional[str] = None) -> None:
    from flipjump.assembler import assembler, fj_parser, preprocessor
    from flipjump.assembler.inner_classes import expr
    from flipjump.fjm.fjm_writer import Writer
    report.encode(assembler.assemble, assembler.labels_resolve, assembler.BinaryData.insert_wflip_ops,
                  assembler.add_segment_to_fjm, assembler.validate_addresses, assembler.assert_address_in_memory,
                  preprocessor.resolve_macro_aux, preprocessor.PreprocessorData.align_current_address,
                  preprocessor.get_pad_ops_alignment, preprocessor.get_rep_times, preprocessor.get_next_segment_start,
                  preprocessor.get_reserved_bits_size, expr.get_minimized_expr, expr.Expr.eval_new, expr.Expr.exact_eval,
                  expr._pow, fj_parser.FJParser, Writer.write_to_file, Writer.add_segment)
    report.stub(*asmsym.STUBS)
    cfgs = build_configs(tier)
    if only:
        cfgs = [c for c in cfgs if only in c['name']]
    report.bounds.update({'skeletons': [s for s, _ in STAGES] + ['op-words', 'wflip-address'],
                          'operators': BIN_OPS + [u for u, _ in UNARY],
                          'operands': 'symbolic, sign unconstrained, |x| <= 2^66 (2^34 for *, 2^20 for / % (w=8 only) and the left side of <<; '
                                      '[-3,3]**[-2,5]; shift counts up to 70/140; |x| <= 6 where the operand is a count of ops to emit), '
                                      'bit-vector width 40..128 with overflow guard',
                          'widths': sorted({c['w'] for c in cfgs})})
    report.outside += ['text-level error classes (lexing errors, syntax errors, random byte mutations): the regex lexer and the '
                       'LALR tables cannot be driven by symbolic strings', 'never-hangs (resource exhaustion by huge rep/pad counts, '
                       '2**(2**40))', 'macro recursion depth as a symbolic quantity (four recursion shapes are validated concretely at the default depth: '
                       'depth-guard diagnostic, not RecursionError)', 'the stl']
    report.assumptions += ['z3 5.1.0', 'pysym proxies']
    report.require_witnesses('c14:ok', 'c14:library-specific')
    common.run_pool(one, cfgs, report, chunksize=2)
    if not only or 'recursion' in only:
        recursion_validation(report)
    shutil.rmtree(common.scratch_dir('c14'), ignore_errors=True)
