"""C10 - reading an .fjm is total, and damaged or torn files are rejected.

(a) totality: the real Reader on files whose bytes (after the 12 bytes selecting width and version) are all symbolic,
    for every file length up to header + 2 segment records + 8 data bytes: the outcome is a Reader or the library's
    read exception on every path - no other exception type, no unbounded loop.
(b) torn writes: files produced by the real Writer from symbolic inputs, cut at every byte: rejected or same image.
(c) inconsistent tables: an arbitrary (symbolic) segment table + data pool is accepted only if it is one the Writer could
    have produced (aligned, non-empty, data fits the segment and the pool, segments pairwise disjoint).
"""
from __future__ import annotations

import json
import os
import lzma
import shutil
import struct
import time
from pathlib import Path
from typing import Any, Dict, List, Optional, Tuple

import z3

from fjv import common, fjmio
from fjv.common import Report, Inconclusive
from fjv.pysym import Engine, SymBytes, sym_int, to_z3, is_sym

MAGIC = ord('F') + (ord('J') << 8)


def header12(w: int, version: int) -> bytes:
    return struct.pack('<HHQ', MAGIC, w, version)


def _explore(E: Engine, body: Any, tag: str) -> List[str]:
    try:
        E.explore(body)
    except Inconclusive as e:
        return [f'{tag}: {e}']
    return []


# ------------------------------------------------------------------------------------------ (a) totality

def totality(cfg: Tuple[int, int, int]) -> Dict[str, Any]:
    common.use_repo()
    w, version, n = cfg
    from flipjump.utils.exceptions import FlipJumpReadFjmException
    W = 96
    E = Engine(W, timeout_ms=120_000, max_paths=20000)
    tag = f'total/w{w}/v{version}/len{n}'
    head = header12(w, version)
    wb = max(w // 8, 1) if w in (8, 16, 32, 64) else 1
    outcomes: Dict[str, int] = {}

    def body() -> None:
        env = fjmio.Env(dict_threshold=3, lzma_out_lengths=((0, 2 * wb, 2 * wb + 1, 4 * wb) if n < 20 + 12 + 64 else (0, 2 * wb)) if version == 3 else ())
        items: List[Any] = list(head[:n]) + [sym_int(f'b{i}', 0, 255) for i in range(12, n)]
        env.fs.files['/mem/f.fjm'] = [SymBytes(items) if any(is_sym(x) for x in items) else bytes(items)]
        try:
            rd = env.VReader(Path('/mem/f.fjm'))
            out = 'loaded'
            try:
                rd.assert_runnable()
                out = 'loaded+runnable'
            except FlipJumpReadFjmException:
                out = 'loaded,not-runnable'
            n_entries = len(rd.memory.entries)
            E.prove(z3.BoolVal(n_entries <= n + 3 * len(rd.memory_segments) + 8), f'{tag}: memory entries bounded by file size')
        except FlipJumpReadFjmException:
            out = 'rejected'
        except fjmio.real_struct.error as e:
            out = 'foreign:struct.error'
        except (IndexError, KeyError, ValueError, TypeError, OverflowError, ZeroDivisionError, AttributeError, MemoryError,
                lzma.LZMAError, RuntimeError, EOFError) as e:
            out = f'foreign:{type(e).__name__}'
        outcomes[out] = outcomes.get(out, 0) + 1
        E.witness(f'total:{out.split(":")[0].split(",")[0].split("+")[0]}', True)
        if out.startswith('foreign'):
            E.prove(z3.BoolVal(False), f'{tag}: Reader raised {out.split(":")[1]} instead of FlipJumpReadFjmException')

    t0 = time.time()
    incon = _explore(E, body, tag)
    viol, replayed = [], 0
    for f in E.failed:
        replayed += 1
        data = bytes(head[:n]) + bytes(int(f['model'].get(f'b{i}', 0)) for i in range(12, n))
        case = {'part': 'total', 'w': w, 'version': version, 'file_hex': data.hex(), 'model': f['model'], 'label': f['label']}
        rep = replay_case(case)
        if rep['differs']:
            viol.append({'label': f['label'], 'signature': f"total:v{version}:{f['label'].split(': ', 1)[1]}",
                         'replay': common.write_replay('C10', tag, case), 'detail': rep})
        else:
            incon.append(f"{f['label']}: counterexample did not reproduce: {rep}")
    return {'configs': 1, **E.stats(), 'samples': [{'config': tag, 'outcomes': outcomes}], 'violations': viol,
            'inconclusive': incon, 'replayed': replayed,
            'harnesses': {f'total/w{w}/v{version}': {'paths': E.paths, 'queries': sum(E.q.values()),
                                                       'wall_s': round(time.time() - t0, 2)}}}


# ------------------------------------------------------------------------------------------ (b) torn writes

TORN_SHAPES = [
    ('one-seg-d2', [('data', 2), ('seg', 0, 2)]),
    ('one-seg-d0', [('seg', 0, 0)]),
    ('two-seg', [('data', 2), ('seg', 0, 2), ('data', 2), ('seg', 2, 2)]),
    ('trailing-unreferenced-data', [('data', 2), ('seg', 0, 2), ('data', 1)]),
]


def torn(cfg: Tuple[int, int, Tuple[str, Any]]) -> Dict[str, Any]:
    common.use_repo()
    w, version, (sname, steps) = cfg
    from flipjump.fjm.fjm_consts import FJMVersion
    from flipjump.fjm.fjm_writer import Writer
    from flipjump.utils.exceptions import FlipJumpReadFjmException, FlipJumpWriteFjmException
    W = 96
    E = Engine(W, timeout_ms=120_000, max_paths=20000)
    tag = f'torn/w{w}/v{version}/{sname}'
    stats = {'prefixes': 0, 'rejected': 0, 'same_image': 0}

    def body() -> None:
        env = fjmio.Env(dict_threshold=3)
        wr = Writer(Path('/mem/full.fjm'), w, FJMVersion(version))   # type: ignore[arg-type]
        orig: List[Any] = []
        segs: List[Tuple[Any, Any, int, int]] = []
        try:
            for st in steps:
                if st[0] == 'data':
                    words = [sym_int(f'd{len(orig) + i}', 0, (1 << w) - 1) for i in range(st[1])]
                    orig += words
                    wr.add_data(list(words))
                else:
                    S = sym_int(f'S{len(segs)}', 0, (1 << 64) - 1)
                    L = sym_int(f'L{len(segs)}', 0, (1 << 64) - 1)
                    wr.add_segment(S, L, st[1], st[2])
                    segs.append((S, L, st[1], st[2]))
            wr.write_to_file()
        except FlipJumpWriteFjmException:
            return
        items = fjmio.flatten(env.fs.files['/mem/full.fjm'])
        k = z3.BitVec('kq', W)
        zero = z3.BitVecVal(0, W)
        exp_valid, exp_val = z3.BoolVal(False), zero
        for S, L, ds, dl in segs:
            s, ln = to_z3(S), to_z3(L)
            inside = z3.And(k >= s, k < s + ln)
            v = zero
            for t in range(dl):
                v = z3.If(k - s == t, to_z3(orig[ds + t]), v)
            exp_valid = z3.Or(exp_valid, inside)
            exp_val = z3.If(inside, v, exp_val)
        cuts: List[Tuple[str, List[Any]]] = []
        for p in range(len(items)):
            cuts.append((f'{p}', items[:p]))
            if isinstance(items[p], fjmio.LZBlob):
                cuts.append((f'{p}+inside-compressed-stream', items[:p] + [fjmio.LZBlob(items[p].payload, torn=True)]))
        check_items: List[Tuple[Any, str]] = []
        for name, prefix in cuts:
            stats['prefixes'] += 1
            chunks: List[Any] = []
            plain = [x for x in prefix if not isinstance(x, fjmio.LZBlob)]
            chunks.append(SymBytes(plain) if any(is_sym(x) for x in plain) else bytes(plain))
            chunks += [x for x in prefix if isinstance(x, fjmio.LZBlob)]
            env.fs.files['/mem/cut.fjm'] = chunks
            try:
                rd = env.VReader(Path('/mem/cut.fjm'))
            except FlipJumpReadFjmException:
                stats['rejected'] += 1
                E.witness('torn:rejected', True)
                continue
            # accepted: must be exactly the same image
            stats['same_image'] += 1
            mem = rd.memory
            zb = z3.Or(*[z3.And(k >= to_z3(a), k < to_z3(b)) for a, b in rd.zeros_boundaries]) if rd.zeros_boundaries else z3.BoolVal(False)
            got_valid = z3.Or(mem.has(k), zb)
            got_val = z3.If(mem.has(k), mem.val(k), zero)
            check_items.append((z3.And(got_valid == exp_valid, z3.Implies(exp_valid, got_val == exp_val),
                                       z3.BoolVal(len(rd.memory_segments) == len(segs))),
                                f'{tag}: prefix of {name} bytes is accepted but decodes to a different image'))
            E.witness('torn:accepted-same-image', True)
        if check_items:
            E.prove_all(check_items, detail=lambda m: {'file_items': None})

    t0 = time.time()
    incon = _explore(E, body, tag)
    viol, replayed = [], 0
    for f in E.failed:
        replayed += 1
        case = {'part': 'torn', 'w': w, 'version': version, 'shape': [sname, [list(s) for s in steps]], 'model': f['model'],
                'label': f['label']}
        rep = replay_case(case)
        if rep['differs']:
            viol.append({'label': f['label'], 'signature': f"torn:{'plain' if version < 3 else 'lzma'}:accepted-different-image",
                         'replay': common.write_replay('C10', tag, case), 'detail': rep})
        else:
            incon.append(f"{f['label']}: counterexample did not reproduce: {rep}")
    return {'configs': 1, **E.stats(), 'samples': [{'config': tag, **stats}], 'violations': viol, 'inconclusive': incon,
            'replayed': replayed,
            'harnesses': {f'torn/w{w}/v{version}': {'paths': E.paths, 'queries': sum(E.q.values()), 'wall_s': round(time.time() - t0, 2)}}}


# ------------------------------------------------------------------------------------------ (c) inconsistent tables

def consistency(cfg: Tuple[int, int, int, int]) -> Dict[str, Any]:
    common.use_repo()
    w, version, nseg, pool = cfg
    from flipjump.utils.exceptions import FlipJumpReadFjmException
    W = 96
    E = Engine(W, timeout_ms=120_000, max_paths=20000)
    tag = f'table/w{w}/v{version}/segs{nseg}/pool{pool}'
    U64 = (1 << 64) - 1

    def body() -> None:
        env = fjmio.Env(dict_threshold=3)
        segs = [tuple(sym_int(f'{nm}{j}', 0, U64) for nm in ('S', 'L', 'DS', 'DL')) for j in range(nseg)]
        words = [sym_int(f'd{i}', 0, (1 << w) - 1) for i in range(pool)]
        chunks: List[Any] = [struct.pack('<HHQQ', MAGIC, w, version, nseg)]
        if version:
            chunks.append(struct.pack('<QL', 0, 0))
        for sg in segs:
            chunks.append(fjmio.sym_pack('<QQQQ', *sg))
        if words:
            chunks.append(fjmio.sym_pack(f'<{pool}' + {8: 'B', 16: 'H', 32: 'L', 64: 'Q'}[w], *words))
        env.fs.files['/mem/t.fjm'] = chunks
        try:
            env.VReader(Path('/mem/t.fjm'))
        except FlipJumpReadFjmException:
            E.witness('table:rejected', True)
            return
        E.witness('table:accepted', True)
        # accepted => a table the writer can produce
        items: List[Tuple[Any, str]] = []
        z = to_z3
        for j, (S, L, DS, DL) in enumerate(segs):
            items.append((z(L) > 0, f'{tag}: accepted a segment of length 0'))
            items.append((z3.And(z3.Extract(0, 0, z(S)) == 0, z3.Extract(0, 0, z(L)) == 0),
                          f'{tag}: accepted a segment whose start/length is not 2w-aligned'))
            items.append((z(DL) <= z(L), f'{tag}: accepted data longer than its segment (words loaded outside every segment)'))
            items.append((z3.And(z3.Extract(0, 0, z(DL)) == 0, z(DS) + z(DL) <= pool), f'{tag}: data range parity/pool check'))
        for a in range(nseg):
            for b in range(a + 1, nseg):
                Sa, La, DSa, DLa = map(z, segs[a])
                Sb, Lb, DSb, DLb = map(z, segs[b])
                items.append((z3.Or(Sa + La <= Sb, Sb + Lb <= Sa), f'{tag}: accepted overlapping segments'))
        # one query per item: each label is its own finding class
        for c, l in items:
            E.prove(c, l)

    t0 = time.time()
    incon = _explore(E, body, tag)
    viol, replayed, seen = [], 0, set()
    for f in E.failed:
        sig = 'table:' + f['label'].split(': ', 1)[1]
        if sig in seen:
            continue
        seen.add(sig)
        replayed += 1
        case = {'part': 'table', 'w': w, 'version': version, 'nseg': nseg, 'pool': pool, 'model': f['model'], 'label': f['label']}
        rep = replay_case(case)
        if rep['differs']:
            viol.append({'label': f['label'], 'signature': sig, 'replay': common.write_replay('C10', tag + sig[-20:], case), 'detail': rep})
        else:
            incon.append(f"{f['label']}: counterexample did not reproduce: {rep}")
    return {'configs': 1, **E.stats(), 'samples': [{'config': tag}], 'violations': viol, 'inconclusive': incon, 'replayed': replayed,
            'harnesses': {f'table/w{w}/v{version}': {'paths': E.paths, 'queries': sum(E.q.values()), 'wall_s': round(time.time() - t0, 2)}}}


# ------------------------------------------------------------------------------------------ replay on the real code

def _fresh_modules() -> Tuple[Any, Any]:
    return fjmio.Env.uninstall()


def replay_case(case: Dict[str, Any]) -> Dict[str, Any]:
    common.use_repo()
    fjm_reader, fjm_writer = _fresh_modules()
    from flipjump.fjm.fjm_consts import FJMVersion
    from flipjump.utils.exceptions import FlipJumpReadFjmException, FlipJumpWriteFjmException
    d = common.scratch_dir('c10')
    m = case.get('model', {})
    try:
        p = d / 'f.fjm'
        if case['part'] == 'total':
            p.write_bytes(bytes.fromhex(case['file_hex']))
            try:
                fjm_reader.Reader(p).assert_runnable()
                return {'differs': False, 'outcome': 'loaded'}
            except FlipJumpReadFjmException as e:
                return {'differs': False, 'outcome': f'rejected: {e}'}
            except Exception as e:  # noqa: BLE001
                return {'differs': True, 'outcome': f'{type(e).__name__}: {e}'}
        if case['part'] == 'table':
            w, version, nseg, pool = case['w'], case['version'], case['nseg'], case['pool']
            raw = struct.pack('<HHQQ', MAGIC, w, version, nseg) + (struct.pack('<QL', 0, 0) if version else b'')
            segs = [tuple(int(m.get(f'{nm}{j}', 0)) for nm in ('S', 'L', 'DS', 'DL')) for j in range(nseg)]
            for sg in segs:
                raw += struct.pack('<QQQQ', *sg)
            raw += struct.pack(f'<{pool}' + {8: 'B', 16: 'H', 32: 'L', 64: 'Q'}[w], *[int(m.get(f'd{i}', 0)) for i in range(pool)])
            p.write_bytes(raw)
            try:
                rd = fjm_reader.Reader(p)
            except FlipJumpReadFjmException as e:
                return {'differs': False, 'outcome': f'rejected: {e}'}
            # is it a table the real Writer accepts?
            wr = fjm_writer.Writer(d / 'w.fjm', w, FJMVersion(version))
            wr.add_data([0] * pool)
            try:
                for S, L, DS, DL in segs:
                    if DL % 2 or DS + DL > pool:
                        raise FlipJumpWriteFjmException('data range')
                    wr.add_segment(S, L, DS, DL)
                return {'differs': False, 'outcome': 'reader accepts, writer accepts', 'segments': segs}
            except FlipJumpWriteFjmException as e:
                outside = [k for k in rd.memory if not any(S <= k < S + L for S, L, _, _ in segs)]
                return {'differs': True, 'outcome': f'reader ACCEPTS a table the writer refuses ({e})', 'segments': segs,
                        'words_outside_every_segment': outside[:4]}
        if case['part'] == 'torn':
            w, version = case['w'], case['version']
            wr = fjm_writer.Writer(p, w, FJMVersion(version))
            orig: List[int] = []
            segs2 = []
            for st in case['shape'][1]:
                if st[0] == 'data':
                    words = [int(m.get(f'd{len(orig) + i}', 0)) for i in range(st[1])]
                    orig += words
                    wr.add_data(list(words))
                else:
                    S, L = int(m.get(f'S{len(segs2)}', 0)), int(m.get(f'L{len(segs2)}', 0))
                    wr.add_segment(S, L, st[1], st[2])
                    segs2.append((S, L))
            wr.write_to_file()
            full = p.read_bytes()
            ref = fjm_reader.Reader(p)
            ref_img = (dict(ref.memory), list(ref.zeros_boundaries), [(s.segment_start, s.segment_length) for s in ref.memory_segments])
            bad = []
            for cut in range(len(full)):
                p.write_bytes(full[:cut])
                try:
                    r = fjm_reader.Reader(p)
                except FlipJumpReadFjmException:
                    continue
                except Exception as e:  # noqa: BLE001
                    bad.append((cut, f'{type(e).__name__}'))
                    continue
                img = (dict(r.memory), list(r.zeros_boundaries), [(s.segment_start, s.segment_length) for s in r.memory_segments])
                if img != ref_img:
                    bad.append((cut, 'accepted with a different image'))
            return {'differs': bool(bad), 'bad_cuts': bad[:5], 'file_len': len(full)}
        return {'differs': False, 'outcome': 'unknown part'}
    finally:
        shutil.rmtree(d, ignore_errors=True)


def replay(path: str) -> int:
    case = json.loads(open(path).read())
    rep = replay_case(case)
    print(json.dumps(rep, indent=1, default=str))
    return 1 if rep['differs'] else 0


def validate_lzma_assumption(report: Report) -> None:
    """assumption used by (b): every strict prefix of a raw-LZMA2 stream makes lzma.decompress raise LZMAError"""
    from flipjump.fjm.fjm_consts import _LZMA_FORMAT, _LZMA_DECOMPRESSION_FILTERS, _lzma_compression_filters
    for payload in (b'', b'\x00' * 16, bytes(range(64)), b'\x20\x01' * 300):
        comp = lzma.compress(payload, format=_LZMA_FORMAT, filters=_lzma_compression_filters(128, 6))
        for cut in range(len(comp)):
            try:
                lzma.decompress(comp[:cut], format=_LZMA_FORMAT, filters=_LZMA_DECOMPRESSION_FILTERS)
                report.inconclusive.append(f'lzma assumption broken: a {cut}-byte prefix of a {len(comp)}-byte stream decompresses')
            except lzma.LZMAError:
                pass
        report.validation_runs += 1


def _dispatch(item: Tuple[str, Any]) -> Dict[str, Any]:
    return {'total': totality, 'torn': torn, 'table': consistency}[item[0]](item[1])


def run(report: Report, tier: str, only: Optional[str] = None) -> None:
    from flipjump.fjm.fjm_reader import Reader
    from flipjump.fjm.fjm_writer import Writer
    report.encode(Reader.__init__, Reader._init_header_fields, Reader._validate_header, Reader._init_segments,
                  Reader._read_decompressed_data, Reader._decompress_data, Reader._init_memory, Reader.assert_runnable,
                  Writer.add_segment, Writer.write_to_file, Writer._update_to_relative_jumps)
    report.stub(*fjmio.Env.STUBS)
    quick = tier == 'quick'
    items: List[Tuple[str, Any]] = []
    widths = (8, 64) if quick else (8, 16, 32, 64)
    for w in widths:
        wb = w // 8
        for version in (0, 1, 2, 3):
            hdr = 20 + (12 if version else 0)
            lens = sorted(set(list(range(0, hdr + 2)) + [hdr + 31, hdr + 32, hdr + 33, hdr + 32 + wb, hdr + 32 + 2 * wb - 1,
                                                            hdr + 32 + 2 * wb, hdr + 32 + 2 * wb + 1, hdr + 63, hdr + 64,
                                                            hdr + 64 + 2 * wb]))
            if not quick:
                lens = sorted(set(lens + list(range(0, hdr + 32 + 4 * wb + 2)) + [hdr + 64 + 2 * wb + 1, hdr + 64 + 4 * wb]))
            for n in lens:
                items.append(('total', (w, version, n)))
    items += [('total', (w, v, n)) for (w, v) in ((7, 1), (8, 4), (8, 1 << 63), (128, 0)) for n in (12, 20, 64)]
    for w in widths:
        for version in (0, 1, 2, 3):
            for sh in TORN_SHAPES:
                items.append(('torn', (w, version, sh)))
    for w in ((8, 64) if quick else (8, 16, 32, 64)):
        for version in ((1, 2) if quick else (0, 1, 2)):
            items.append(('table', (w, version, 1, 2)))
            items.append(('table', (w, version, 2, 4)))
    if only:
        items = [it for it in items if only in f'{it[0]}/{it[1]}']
    report.bounds.update({'totality': 'file length 0 .. header + 2 segment records + 8 data bytes (quick: the lengths around every '
                                      'field / record / word boundary; thorough: every length), every byte after the first 12 '
                                      'symbolic; the first 12 bytes enumerate width in {8,16,32,64,+bad} x version in {0..3,+bad}',
                          'torn': f'writer call sequences {[s[0] for s in TORN_SHAPES]} with symbolic starts/lengths/words, every '
                                  'strict prefix length (+ a cut inside the compressed stream for version 3)',
                          'tables': '1-2 symbolic segment records (all four 64-bit fields free) + pool of 2-4 symbolic words'})
    report.outside += ['the LZMA decoder itself (stub: fails, or yields arbitrary bytes of a few listed lengths)',
                       'decompression bombs (output size unrelated to file size is inherent to version 3)', 'OS errors from open()',
                       'files longer than the bound; more than 2 segment records']
    report.assumptions += ['a strict prefix of a raw LZMA2 stream makes lzma.decompress raise LZMAError (re-validated on 4 real '
                           'streams at every cut on each run)', 'z3 5.1.0', 'pysym proxies']
    report.require_witnesses('total:loaded', 'total:rejected', 'torn:rejected', 'torn:accepted-same-image', 'table:accepted',
                             'table:rejected')
    validate_lzma_assumption(report)
    os.environ.setdefault('FJV_MAX_SECONDS', '600')        # one file length / shape never needs more than seconds on the unchanged tree
    common.run_pool(_dispatch, items, report, chunksize=4)
