"""C18 - a device failure or interrupt stops the run at a consistent point.

Python engines (pysym): the real fjm_run.run() - its except ladder and the finally blocks of the loops - runs on the
fully symbolic machine state of C01 with an IO device that raises at its k-th call (k symbolic), for each kind of
exception; the outcome class and everything observable at the stop (op count, outputs so far, last-ops list, memory)
is proved equal to pyspec stopped by the same fault.
Native engine (llsx): see fjv/llsx/c18_native.
"""
from __future__ import annotations

import json
import time
from typing import Any, Dict, List, Optional, Tuple

import z3

from fjv import common, pyengine, pyspec
from fjv.common import Report, Inconclusive
from fjv.pysym import Engine, assume, sym_int, to_z3, to_z3_bool, mkb

KINDS = ['library-io', 'eof-type', 'foreign', 'interrupt']


def make_exc(kind: str) -> BaseException:
    from flipjump.utils.exceptions import BrokenIOUsed, IOReadOnEOF
    return {'library-io': BrokenIOUsed('device failed'), 'eof-type': IOReadOnEOF('device says eof'),
            'foreign': ValueError('device bug'), 'interrupt': KeyboardInterrupt()}[kind]


class FaultingSpecIO(pyengine.SpecIO):
    def __init__(self, st: Any, k: Any, exc: BaseException):
        super().__init__(st)
        self.k, self.exc, self.calls = k, exc, 0
        self.fault_in: Optional[str] = None

    def _tick(self, what: str) -> None:
        hit = (self.k == self.calls)
        self.calls += 1
        if hit if isinstance(hit, bool) else bool(hit):
            self.fault_in = what
            raise self.exc

    def read(self) -> Tuple[Any, Any]:
        self._tick('read')
        return super().read()

    def write(self, bit: Any) -> None:
        self._tick('write')
        super().write(bit)


def py_config(cfg: Tuple[int, str, str, str]) -> Dict[str, Any]:
    common.use_repo()
    w, eng, mode, kind = cfg
    import os
    from flipjump.fjm.fjm_reader import MemorySegment
    from flipjump.interpreter import fjm_run
    from flipjump.utils.classes import RunStatistics, TerminationCause
    from flipjump.utils.exceptions import IOReadOnEOF, FlipJumpRuntimeException, FlipJumpException
    os.environ['FLIPJUMP_NO_NATIVE'] = '1'
    pyengine.install_format_stubs()
    W = 2 * w + 16
    K = 1 if mode == 'first' else 2
    E = Engine(W, timeout_ms=180_000)
    tag = f'py/{eng}/w{w}/{mode}/{kind}'
    ww = w.bit_length() - 1

    def body() -> None:
        st = pyengine.PyState(w, W, 1 if mode == 'first' else 0, K)
        if mode == 'tramp':
            P, M = st.P0, st.M0
            bv = lambda v: z3.BitVecVal(v, W)  # noqa: E731
            f0 = z3.ZeroExt(W - w, z3.Select(M, bv(0)))
            fw0 = z3.LShR(f0, ww)
            x0 = z3.ZeroExt(W - w, z3.Select(M, bv(1)))
            assume(z3.And(z3.Select(P, bv(0)), z3.Select(P, bv(1)), f0 != 2 * w, f0 != 2 * w + 1, fw0 != 0, fw0 != 1,
                          z3.Select(P, fw0), z3.UGE(x0, bv(2 * w))))
        st.reader.memory_segments = [MemorySegment(0, 2)]        # only assert_runnable looks at it
        kf = sym_int('KFAULT', 0, 2 * K)
        exc = make_exc(kind)
        io = pyengine.SymIO(st.avail, st.bits, IOReadOnEOF, fault_at=(kf, exc))
        ring = pyengine.Ring(K)

        class Stats(RunStatistics):
            def __init__(self, memory_width: int, n: Optional[int]):
                super().__init__(memory_width, n)
                self.last_ops_addresses = ring  # type: ignore[assignment]

        class FakeReaderModule:
            GarbageHandling = fjm_run.fjm_reader.GarbageHandling if hasattr(fjm_run.fjm_reader, 'GarbageHandling') else None

            @staticmethod
            def Reader(path: Any) -> Any:
                return st.reader
        real_mod, real_stats = fjm_run.fjm_reader, fjm_run.RunStatistics
        fjm_run.fjm_reader, fjm_run.RunStatistics = FakeReaderModule, Stats      # type: ignore[assignment,misc]
        out: Dict[str, Any] = {}
        try:
            try:
                t = fjm_run.run('/mem/x.fjm', io_device=io, last_ops_debugging_list_length=5, profile=(eng == 'featured'))  # type: ignore[arg-type]
                out = {'how': 'returned', 'cause': int(t.termination_cause), 'fault': t.memory_error_address, 'ops': t.op_counter}
            except pyengine.StopAfterK as s:
                out = {'how': 'cut', 'next_ip': s.next_ip}
            except FlipJumpException as e:
                out = {'how': 'raised', 'exc': e}
        finally:
            fjm_run.fjm_reader, fjm_run.RunStatistics = real_mod, real_stats    # type: ignore[assignment,misc]
        # ---- reference: pyspec with the same faulting device
        smem, sio = pyengine.SpecMem(st), FaultingSpecIO(st, kf, exc)
        ip: Any = 0
        ops = 0
        started: List[Any] = []
        status: Any = pyspec.CONTINUE
        extra: Any = None
        stopped_by: Optional[str] = None
        while len(started) < K:
            started.append(ip)
            try:
                status, extra, counted = pyspec.step(w, smem, sio, ip)
            except (Exception, KeyboardInterrupt) as e:   # the device's exception
                assert e is exc
                stopped_by = sio.fault_in
                break
            ops += 1 if counted else 0
            if status != pyspec.CONTINUE:
                break
            ip = extra
        items: List[Tuple[Any, str]] = []
        add = lambda c, l: items.append((c, f'{tag}: {l}'))  # noqa: E731
        if stopped_by is None:
            want = {'how': 'cut'} if status == pyspec.CONTINUE else {'how': 'returned', 'cause': status}
        elif kind == 'interrupt':
            want = {'how': 'returned', 'cause': int(TerminationCause.KeyboardInterrupt)}
        elif kind == 'eof-type' and stopped_by == 'read':
            want = {'how': 'returned', 'cause': int(TerminationCause.EOF)}
        elif kind in ('library-io', 'eof-type'):
            want = {'how': 'raised', 'same_object': True}
        else:
            want = {'how': 'raised', 'wrapped': True}
        add(z3.BoolVal(out.get('how') == want['how']), f"the run {want['how']} (got {out.get('how')}, {out.get('cause')})")
        if want['how'] == 'returned' and out.get('how') == 'returned':
            add(z3.BoolVal(out['cause'] == want['cause']), 'termination cause')
            add(pyengine.same(out['ops'], ops), 'reported op count = ops executed before the stop')
            if status == pyspec.MEMERR and stopped_by is None:
                add(pyengine.same(out['fault'], extra), 'fault address')
        if want['how'] == 'raised' and out.get('how') == 'raised':
            e = out['exc']
            if want.get('same_object'):
                add(z3.BoolVal(e is exc), 'the library IO exception propagates unchanged')
            else:
                add(z3.BoolVal(isinstance(e, FlipJumpRuntimeException) and e.__cause__ is exc), 'a foreign exception is wrapped as the runtime error')
        if want['how'] == 'cut' and out.get('how') == 'cut':
            add(pyengine.same(out['next_ip'], ip), 'next ip')
        # state at the stop: outputs so far, last-ops list, memory
        add(z3.BoolVal(len(io.out) == len(sio.out)), 'number of output bits produced before the stop')
        for i, (a, b) in enumerate(zip(io.out, sio.out)):
            add(to_z3_bool(a) == to_z3_bool(b), f'output bit {i}')
        add(z3.BoolVal(len(ring.items) == len(started)), 'last-ops list length')
        for i, (a, b) in enumerate(zip(ring.items, started)):
            add(pyengine.same(a, b), f'last-ops address {i}')
        mem = st.reader.memory
        k = z3.BitVec('kq', W)
        in_space = z3.And(k >= 0, k < (1 << w))
        add(z3.Implies(z3.And(in_space, st.valid0(k)), mem.alpha(k) == smem.alpha(k)), 'memory at the stop = memory after the ops executed before it')
        E.prove_all(items, detail=pyengine.image_reader(st, list(mem.keys) + list(smem.keys)))
        E.witness(f'py:stopped-in-{stopped_by}', True)
        E.witness(f"py:{want['how']}", True)

    t0 = time.time()
    incon: List[str] = []
    try:
        E.explore(body)
    except Inconclusive as e:
        incon.append(f'{tag}: {e}')
    viol, replayed = [], 0
    for f in E.failed[:2]:
        replayed += 1
        case = {'cfg': list(cfg), 'model': f['model'], 'image': f.get('detail'), 'label': f['label'], 'all_failing': f.get('all_failing')}
        rep = replay_case(case)
        if rep['differs']:
            viol.append({'label': f['label'], 'signature': f"py:{eng}:{kind}:{f['label'].split(': ', 1)[1][:50]}",
                         'replay': common.write_replay('C18', tag, case), 'detail': rep})
        else:
            incon.append(f"{f['label']}: did not reproduce: {rep}")
    return {'configs': 1, **E.stats(), 'samples': [{'config': tag, 'paths': E.paths}], 'violations': viol, 'inconclusive': incon,
            'replayed': replayed,
            'harnesses': {f'py/{eng}/{mode}': {'paths': E.paths, 'queries': sum(E.q.values()), 'wall_s': round(time.time() - t0, 2)}}}


def replay_case(case: Dict[str, Any]) -> Dict[str, Any]:
    """real fjm_run.run on a real .fjm written from the model image, with a device failing at call k; compared with pyspec"""
    common.use_repo()
    import os
    import shutil
    from flipjump.fjm import fjm_reader
    fjm_reader.__dict__.pop('hex', None)
    from flipjump.fjm.fjm_reader import Reader, GarbageHandling, MemorySegment
    from flipjump.interpreter import fjm_run
    from flipjump.utils.classes import RunStatistics
    from flipjump.utils.exceptions import FlipJumpException, FlipJumpRuntimeException, IOReadOnEOF
    w, eng, mode, kind = case['cfg']
    img, m = case['image'], case['model']
    if not img:
        return {'differs': False, 'why': 'no image'}
    K = 1 if mode == 'first' else 2
    kf = int(m.get('KFAULT', 0))
    exc = make_exc(kind)
    words = {int(k): x for k, x in img['words'].items()}
    os.environ['FLIPJUMP_NO_NATIVE'] = '1'

    class IO:
        def __init__(self) -> None:
            self.out: List[bool] = []
            self.reads, self.calls = 0, 0

        def _tick(self) -> None:
            self.calls += 1
            if self.calls - 1 == kf:
                raise exc

        def attach_memory(self, mm: Any) -> None:
            pass

        def write_bit(self, b: bool) -> None:
            self._tick()
            self.out.append(bool(b))

        def read_bit(self) -> bool:
            self._tick()
            i = self.reads
            self.reads += 1
            if i >= len(img['inputs']) or not img['inputs'][i][0]:
                raise IOReadOnEOF('eof')
            return img['inputs'][i][1]

    r = Reader.__new__(Reader)
    r.garbage_handling, r.memory_width = GarbageHandling.Stop, w
    r.memory = dict(words)
    r.zeros_boundaries = [tuple(z) for z in img['zero_ranges']]
    r.memory_segments = [MemorySegment(0, 2)]
    ring = pyengine.Ring(K)

    class Stats(RunStatistics):
        def __init__(self, memory_width: int, n: Optional[int]):
            super().__init__(memory_width, n)
            self.last_ops_addresses = ring  # type: ignore[assignment]

    class FakeReaderModule:
        @staticmethod
        def Reader(path: Any) -> Any:
            return r
    io = IO()
    real_mod, real_stats = fjm_run.fjm_reader, fjm_run.RunStatistics
    fjm_run.fjm_reader, fjm_run.RunStatistics = FakeReaderModule, Stats      # type: ignore[assignment,misc]
    got: Dict[str, Any] = {}
    try:
        try:
            t = fjm_run.run('/x.fjm', io_device=io, last_ops_debugging_list_length=5, profile=(eng == 'featured'))  # type: ignore[arg-type]
            got = {'how': 'returned', 'cause': int(t.termination_cause), 'ops': t.op_counter}
        except pyengine.StopAfterK:
            got = {'how': 'cut'}
        except FlipJumpException as e:
            got = {'how': 'raised', 'type': type(e).__name__, 'same': e is exc, 'wraps': e.__cause__ is exc}
    finally:
        fjm_run.fjm_reader, fjm_run.RunStatistics = real_mod, real_stats    # type: ignore[assignment,misc]
    got.update(out=io.out, ips=list(ring.items))
    # reference
    mem = pyspec.DictMem(words, [tuple(z) for z in img['zero_ranges']])

    class SIO(pyspec.ListIO):
        calls = 0

        def read(self) -> Tuple[bool, bool]:
            SIO.calls += 1
            if SIO.calls - 1 == kf:
                raise exc
            i = self.reads
            self.reads += 1
            if i >= len(img['inputs']) or not img['inputs'][i][0]:
                return False, False
            return True, img['inputs'][i][1]

        def write(self, bit: bool) -> None:
            SIO.calls += 1
            if SIO.calls - 1 == kf:
                raise exc
            self.out.append(bool(bit))
    sio = SIO([])
    ip, ops, started, status, stopped = 0, 0, [], pyspec.CONTINUE, False
    while len(started) < K:
        started.append(ip)
        try:
            status, extra, counted = pyspec.step(w, mem, sio, ip)
        except (Exception, KeyboardInterrupt):
            stopped = True
            break
        ops += 1 if counted else 0
        if status != pyspec.CONTINUE:
            break
        ip = extra
    want = {'out': sio.out, 'ips': started, 'ops_before_stop': ops, 'stopped_by_device': stopped}
    differs = got['out'] != want['out'] or got['ips'] != want['ips'] or (got.get('how') == 'returned' and got.get('ops') != ops)
    memdiff = [(k, r.memory.get(k), v) for k, v in mem.words.items() if (r.memory.get(k) or 0) != (v or 0)][:3]
    return {'differs': differs or bool(memdiff), 'real': got, 'reference': want, 'memory_diff(addr,real,ref)': memdiff, 'fault_call': kf, 'kind': kind}


def replay(path: str) -> int:
    case = json.loads(open(path).read())
    if case.get('glue'):
        from fjv.checks import native_glue
        return native_glue.replay(case)
    if case.get('native'):
        from fjv.llsx import native_replay
        return native_replay.replay(case)
    rep = replay_case(case)
    print(json.dumps(rep, indent=1, default=str))
    return 1 if rep['differs'] else 0


def run(report: Report, tier: str, only: Optional[str] = None) -> None:
    from flipjump.interpreter import fjm_run
    report.encode(fjm_run.run, fjm_run._run_featured, fjm_run._run_fast, fjm_run._handle_input, fjm_run._handle_output)
    report.stub('fjm_reader.Reader inside fjm_run -> returns the symbolic Reader state of C01', 'RunStatistics inside fjm_run -> subclass '
                'whose last-ops container cuts the loop after K ops', 'IO device -> SymIO raising the chosen exception at its k-th call (k symbolic)',
                'FLIPJUMP_NO_NATIVE=1 (python engines)')
    quick = tier == 'quick'
    cfgs: List[Tuple[int, str, str, str]] = []
    for w in ((8, 64) if quick else (8, 16, 32, 64)):
        for eng in ('featured', 'fast'):
            for kind in KINDS:
                cfgs.append((w, eng, 'first', kind))
                if not quick or (w == 8 and kind in ('interrupt', 'foreign')):
                    cfgs.append((w, eng, 'tramp', kind))
    if only:
        cfgs = [c for c in cfgs if only in f'py/{c[1]}/w{c[0]}/{c[2]}/{c[3]}']
    report.bounds.update({'python_engines': 'K=1 from ip 0 (fully symbolic state) and K=2 with the C01 trampoline; the device raises at call '
                                            'k in [0, 2K] (symbolic; beyond the calls made = no fault); kinds: ' + ', '.join(KINDS)})
    report.outside += ['asynchronous KeyboardInterrupt delivered between two bytecodes of the pure-python loops (CPython eval loop, not code '
                       'under analysis; a mid-op delivery cannot satisfy the statement by construction)', 'the pygame window close event']
    report.assumptions += ['pyspec', 'z3 5.1.0', 'pysym proxies']
    report.require_witnesses('py:stopped-in-read', 'py:stopped-in-write', 'py:stopped-in-None', 'py:returned', 'py:raised', 'py:cut')
    from fjv.checks.c01 import prove_lemmas
    prove_lemmas(report)
    common.run_pool(py_config, cfgs, report)
    from fjv.llsx import c01_native
    c01_native.run(report, tier, only, prop='C18')
    from fjv.checks import native_glue
    native_glue.run(report, tier, only, ['interrupt', 'library-io', 'foreign'])
