"""C20 - the fj command, its split flows and the Python API agree.

pysym on the real option plumbing (flipjump_cli.get_version / assemble / run / get_files_paths / execute_assemble_run and
flipjump_quickstart.assemble / run / debug / assemble_and_run / assemble_and_debug) with the two cores
(assembler.assemble and fjm_run.run) replaced by recorders: the option values are symbolic, and the recorded core calls of
the one-step CLI flow, the two-step CLI flow and the API are proved argument-for-argument identical.  Byte identity of the
produced files then rests on the core being a function of those arguments (C13, not claimed).
"""
from __future__ import annotations

import json
import shutil
import time
from pathlib import Path
from typing import Any, Dict, List, Optional, Tuple

import z3

from fjv import common
from fjv.common import Report, Inconclusive
from fjv.pysym import Engine, SymBool, SymInt, int_of, is_sym, sym_bool, sym_int, to_z3, to_z3_bool


class Recorder:
    def __init__(self) -> None:
        self.asm: List[Dict[str, Any]] = []
        self.run: List[Dict[str, Any]] = []


def install(rec: Recorder) -> None:
    from flipjump import flipjump_cli, flipjump_quickstart
    from flipjump.assembler import assembler
    from flipjump.interpreter import fjm_run

    def fake_assemble(input_files: Any, memory_width: Any, fjm_writer: Any, *, warning_as_errors: Any = True,
                      debugging_file_path: Any = None, show_statistics: Any = False, print_time: Any = True,
                      max_recursion_depth: Any = 900) -> None:
        rec.asm.append({'files': [(n, Path(p).name) for n, p in input_files], 'width': memory_width,
                        'writer_width': fjm_writer.word_size, 'version': fjm_writer.version, 'flags': fjm_writer.flags,
                        'lzma_preset': getattr(fjm_writer, 'lzma_preset', None), 'out': Path(fjm_writer.output_file).name,
                        'werror': warning_as_errors, 'debug': None if debugging_file_path is None else 'set',
                        'stats': show_statistics, 'print_time': print_time, 'depth': max_recursion_depth})
        Path(fjm_writer.output_file).write_bytes(b'')        # the flows check that the file exists before running it

    class FakeStats:
        def print(self, **k: Any) -> None:
            pass

    def fake_run(fjm_path: Any, *, breakpoint_handler: Any = None, io_device: Any = None, show_trace: Any = False,
                 print_time: Any = False, last_ops_debugging_list_length: Any = None, profile: Any = False,
                 flat_max_words: Any = None) -> Any:
        rec.run.append({'fjm': Path(fjm_path).name, 'bp': None if breakpoint_handler is None else sorted(breakpoint_handler.breakpoints),
                        'io': type(io_device).__name__, 'trace': show_trace, 'print_time': print_time,
                        'last_ops': last_ops_debugging_list_length, 'profile': profile, 'flat_max_words': flat_max_words})
        return FakeStats()

    class FakeAssembler:
        assemble = staticmethod(fake_assemble)

    class FakeRun:
        run = staticmethod(fake_run)
    flipjump_cli.assembler = FakeAssembler            # type: ignore[attr-defined]
    flipjump_quickstart.assembler = FakeAssembler     # type: ignore[attr-defined]
    flipjump_quickstart.fjm_run = FakeRun             # type: ignore[attr-defined]


class Rejected(Exception):
    pass


def err(msg: str) -> None:
    raise Rejected(msg)


def eqv(a: Any, b: Any) -> Any:
    """z3 Bool: the two recorded values are equal"""
    if is_sym(a) or is_sym(b):
        if type(a) is SymBool or type(b) is SymBool or isinstance(a, bool) and not is_sym(a) or isinstance(b, bool) and not is_sym(b):
            return to_z3_bool(a) == to_z3_bool(b)
        return to_z3(a) == to_z3(b)
    return z3.BoolVal(a == b)


def config(cfg: Tuple[str, bool, bool, bool]) -> Dict[str, Any]:
    common.use_repo()
    kind, with_out, with_version, no_stl = cfg
    from flipjump import flipjump_cli, flipjump_quickstart
    from flipjump.fjm.fjm_consts import FJMVersion
    W = 40
    E = Engine(W)
    tag = f'{kind}/out={int(with_out)}/version-given={int(with_version)}/no_stl={int(no_stl)}'
    d = common.scratch_dir('c20')
    src = d / 'prog.fj'
    src.write_text(';\n')
    fjm = d / 'prog.fjm'
    fjm.write_bytes(b'')

    def body() -> None:
        rec = Recorder()
        install(rec)
        width = 8 << int_of(sym_int('WIDTH_LOG', 0, 3))
        version = int_of(sym_int('VERSION', 0, 3)) if with_version else None
        werror, silent, trace, profile, stats = (sym_bool(n) for n in ('WERROR', 'SILENT', 'TRACE', 'PROFILE', 'STATS'))
        depth = sym_int('DEPTH', 1, 100000)
        preset = int_of(sym_int('PRESET', 0, 9))
        last_ops = sym_int('LASTOPS', 1, 1000)

        def base_args(extra: List[str]) -> Any:
            args, _ = flipjump_cli.parse_arguments(cmd_line_args=extra)
            args.width, args.version, args.werror, args.silent = width, version, werror, silent
            args.trace, args.profile, args.stats, args.max_recursion_depth = trace, profile, stats, depth
            args.lzma_preset, args.debug_ops_list, args.no_stl = preset, last_ops, no_stl
            return args
        out_opts = ['-o', str(fjm)] if with_out else []
        # route 1: one step (assemble + run)
        a1 = base_args([str(src)] + out_opts)
        flipjump_cli.execute_assemble_run(a1, err)
        one_asm, one_run = rec.asm[-1], rec.run[-1]
        expected_version = FJMVersion(version) if version is not None else (FJMVersion.CompressedVersion if with_out else FJMVersion.NormalVersion)
        items: List[Tuple[Any, str]] = [
            (z3.BoolVal(one_asm['version'] == expected_version), f'{tag}: version = the requested one, else 3 with -o and 1 without'),
            (eqv(one_asm['width'], width), f'{tag}: width plumbed'), (eqv(one_asm['writer_width'], width), f'{tag}: writer width'),
            (z3.BoolVal((len(one_asm['files']) == 1) == no_stl), f'{tag}: stl included unless --no_stl'),
            (eqv(one_asm['werror'], werror), f'{tag}: werror plumbed'), (eqv(one_asm['depth'], depth), f'{tag}: recursion depth plumbed'),
            (eqv(one_asm['stats'], stats), f'{tag}: stats plumbed'),
            (eqv(one_asm['print_time'], ~_b(silent)), f'{tag}: print_time = not silent'),
            (eqv(one_run['trace'], trace), f'{tag}: trace plumbed'), (eqv(one_run['profile'], profile), f'{tag}: profile plumbed'),
            (eqv(one_run['last_ops'], last_ops), f'{tag}: last-ops length plumbed'),
            (z3.BoolVal(one_run['fjm'] == one_asm['out']), f'{tag}: the run uses the file that was just assembled'),
        ]
        if one_asm['version'] == FJMVersion.CompressedVersion:
            items.append((eqv(one_asm['lzma_preset'], preset), f'{tag}: lzma preset plumbed'))
        if with_out:
            # route 2: two steps
            a2 = base_args(['--asm', str(src)] + out_opts)
            flipjump_cli.execute_assemble_run(a2, err)
            two_asm = rec.asm[-1]
            a3 = base_args(['--run', str(fjm)])
            flipjump_cli.execute_assemble_run(a3, err)
            two_run = rec.run[-1]
            for k in one_asm:
                items.append((eqv(one_asm[k], two_asm[k]), f'{tag}: one-step and --asm flows pass the same `{k}` to the assembler'))
            for k in one_run:
                items.append((eqv(one_run[k], two_run[k]), f'{tag}: one-step and --run flows pass the same `{k}` to the interpreter'))
        # route 3: the python API with the same options
        from flipjump.interpreter.io_devices.StandardIO import StandardIO
        api_out = fjm if with_out else d / 'api.fjm'
        flipjump_quickstart.assemble([src], api_out, memory_width=width, use_stl=not no_stl, fjm_version=expected_version,
                                     warning_as_errors=werror, show_statistics=stats, print_time=~_b(silent), max_recursion_depth=depth)
        api_asm = rec.asm[-1]
        for k in ('files', 'width', 'writer_width', 'version', 'werror', 'stats', 'print_time', 'depth', 'flags'):
            items.append((eqv(one_asm[k], api_asm[k]), f'{tag}: CLI and API pass the same `{k}` to the assembler'))
        flipjump_quickstart.run(api_out, io_device=StandardIO(True), show_trace=trace, print_time=~_b(silent),
                                print_termination=False, last_ops_debugging_list_length=last_ops, profile=profile)
        api_run = rec.run[-1]
        for k in ('bp', 'io', 'trace', 'print_time', 'last_ops', 'profile', 'flat_max_words'):
            items.append((eqv(one_run[k], api_run[k]), f'{tag}: CLI and API pass the same `{k}` to the interpreter'))
        E.prove_all(items)
        E.witness('c20:explicit-version-0' if version == 0 else 'c20:other', True)

    def _b(x: Any) -> Any:
        class N:
            pass
        return _Neg(x)

    class _Neg:
        """`not x` without forking: a SymBool negation"""
        def __init__(self, x: Any):
            self.x = x

        def __invert__(self) -> Any:
            from fjv.pysym import mkb
            return mkb(z3.Not(to_z3_bool(self.x)))

    t0 = time.time()
    incon: List[str] = []
    try:
        E.explore(body)
    except Inconclusive as e:
        incon.append(f'{tag}: {e}')
    except Rejected as e:
        incon.append(f'{tag}: the CLI rejected a valid option vector: {e}')
    viol = []
    for f in E.failed[:1]:
        case = {'cfg': list(cfg), 'model': f['model'], 'label': f['label'], 'all_failing': f.get('all_failing')}
        rep = replay_case(case)
        if rep['differs']:
            viol.append({'label': f['label'], 'signature': rep['what'], 'replay': common.write_replay('C20', tag, case), 'detail': rep})
        else:
            incon.append(f"{f['label']}: did not reproduce: {rep}")
    return {'configs': 1, **E.stats(), 'samples': [{'config': tag}], 'violations': viol, 'inconclusive': incon,
            'replayed': len(E.failed[:1]),
            'harnesses': {kind: {'paths': E.paths, 'queries': sum(E.q.values()), 'wall_s': round(time.time() - t0, 2)}}}


def replay_case(case: Dict[str, Any]) -> Dict[str, Any]:
    """the real CLI (in-process, real cores) on a tiny program vs the API: compare the produced bytes"""
    common.use_repo()
    import importlib
    import io
    import contextlib
    from flipjump import flipjump_cli, flipjump_quickstart
    importlib.reload(flipjump_quickstart)
    importlib.reload(flipjump_cli)
    from flipjump.fjm.fjm_consts import FJMVersion
    from flipjump.fjm.fjm_reader import Reader
    kind, with_out, with_version, no_stl = case['cfg']
    m = case['model']
    width = 8 << int(m.get('WIDTH_LOG', 3))
    version = int(m.get('VERSION', 0)) if with_version else None
    d = common.scratch_dir('c20r')
    try:
        src = d / 'p.fj'
        src.write_text('def startup @ code_start > IO {\n;code_start\nIO:\n;0\ncode_start:\n}\nstartup\nloop:\n;loop\n' if no_stl
                       else 'stl.startup\nstl.loop\n')
        cli_out, api_out = d / 'cli.fjm', d / 'api.fjm'
        want_version = FJMVersion(version) if version is not None else FJMVersion.CompressedVersion
        preset = int(m.get('PRESET', 6))
        preset_case = 'lzma preset' in case.get('label', '') and want_version == FJMVersion.CompressedVersion and preset != 6
        if preset_case and not no_stl:
            # presets differ in the bytes only on a program with some content: the repo's hello_world (the width is irrelevant to
            # this obligation; 64 is what that program is written for)
            width = 64
            hello = common.REPO / 'programs' / 'print_tests' / 'hello_world.fj'
            if hello.exists():
                src.write_text(hello.read_text())
        args = [str(src), '-o', str(cli_out), '-w', str(width), '-s', '--asm'] + (['-v', str(version)] if version is not None else []) \
            + (['--no_stl'] if no_stl else []) + (['--werror'] if m.get('WERROR') else []) + (['--lzma_preset', str(preset)] if preset_case else [])
        with contextlib.redirect_stdout(io.StringIO()):
            flipjump_cli.assemble_run_according_to_cmd_line_args(cmd_line_args=args)
        if preset_case:
            # --lzma_preset has no quickstart counterpart: the API route is the two cores themselves
            from flipjump.assembler import assembler
            from flipjump.fjm.fjm_writer import Writer
            from flipjump.utils.functions import get_file_tuples
            with contextlib.redirect_stdout(io.StringIO()):
                assembler.assemble(get_file_tuples([str(src.absolute())], no_stl=no_stl), width, Writer(api_out, width, want_version, lzma_preset=preset),
                                   warning_as_errors=bool(m.get('WERROR')), print_time=False)
        else:
            flipjump_quickstart.assemble([src], api_out, memory_width=width, use_stl=not no_stl, fjm_version=want_version,
                                         warning_as_errors=bool(m.get('WERROR')), print_time=False)
        got_v = Reader(cli_out).version
        same = cli_out.read_bytes() == api_out.read_bytes()
        what = ('explicit -v is ignored: the CLI wrote version %d instead of %d' % (got_v.value, want_version.value)
                if got_v != want_version else ('CLI and API files differ' if not same else 'identical'))
        return {'differs': (not same) or got_v != want_version, 'what': what, 'cli_args': args[1:], 'cli_version': got_v.value,
                'api_version': want_version.value}
    finally:
        shutil.rmtree(d, ignore_errors=True)


def replay(path: str) -> int:
    case = json.loads(open(path).read())
    rep = replay_case(case)
    print(json.dumps(rep, indent=1, default=str))
    return 1 if rep['differs'] else 0


def defaults_check(report: Report) -> None:
    """the documented defaults through the REAL argparse parser: width 64, stl included, version chosen by get_version"""
    from flipjump import flipjump_cli
    args, _ = flipjump_cli.parse_arguments(cmd_line_args=['x.fj'])
    ok = (args.width == 64 and args.version is None and args.no_stl is False and args.outfile is None and args.flags == 0
          and not args.asm and not args.run and not args.werror)
    report.obligations += 1
    report.validation_runs += 1
    if ok:
        report.discharged += 1
    else:
        report.violations.append({'signature': 'argparse defaults', 'replay': common.write_replay('C20', 'defaults', {'args': vars(args)}),
                                  'detail': vars(args)})


def run(report: Report, tier: str, only: Optional[str] = None) -> None:
    from flipjump import flipjump_cli as cli, flipjump_quickstart as qs
    report.encode(cli.get_version, cli.assemble, cli.run, cli.get_files_paths, cli.get_fjm_file_path, cli.get_debug_file_path,
                  cli.execute_assemble_run, qs.assemble, qs.run, qs.debug, qs.assemble_and_run, qs.assemble_and_debug)
    report.stub('assembler.assemble inside flipjump_cli / flipjump_quickstart -> recorder of its arguments',
                'fjm_run.run inside flipjump_quickstart -> recorder of its arguments',
                'argparse runs for real on the concrete part of the command line; the numeric / boolean option values are then '
                'replaced by symbolic ones in the Namespace')
    items = [('routes', o, v, n) for o in (False, True) for v in (False, True) for n in (False, True)]
    if only:
        items = [it for it in items if only in str(it)]
    report.bounds.update({'symbolic': 'width in {8,16,32,64}, version in {0..3} or absent, lzma preset 0..9 (enumerated by the solver); '
                                      'werror, silent, trace, profile, stats booleans, recursion depth, last-ops length (symbolic to '
                                      'the final comparison)',
                          'configurations': '-o present/absent x -v present/absent x --no_stl'})
    report.outside += ['argparse text handling', 'temp-directory naming', 'byte identity of the files beyond identical core arguments '
                       '(needs the assembler to be a pure function of them: C13, not claimed)', '-d / breakpoints options',
                       '--flags, --lzma_preset and --io pc have no API counterpart']
    report.assumptions += ['z3 5.1.0', 'pysym proxies']
    report.require_witnesses('c20:explicit-version-0', 'c20:other')
    common.run_pool(config, items, report)
    defaults_check(report)
    shutil.rmtree(common.scratch_dir('c20'), ignore_errors=True)
