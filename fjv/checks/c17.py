"""C17 - bit-level IO devices are byte-exact.

pysym on the real FixedIO / StandardIO / KeyboardIO (+ScriptedKeyEventSource) / BrokenIO: every written bit,
every input byte, every event tic / keycode / direction is symbolic; lengths (number of writes, input length,
number of events, number of reads) are configurations that are enumerated completely up to the stated bounds.
"""
from __future__ import annotations

import json
import time
from typing import Any, Dict, List, Optional, Tuple

import z3

from fjv import common
from fjv.common import Report, Inconclusive
from fjv.pysym import (Engine, SymBytes, SymBool, is_sym, sym_bool, sym_bytes, sym_int, to_z3, to_z3_bool, int_of)


def _bits_to_bytes_terms(bits: List[Any], W: int) -> List[Any]:
    """oracle: LSB-first packing of full bytes (z3 terms of width W)"""
    out = []
    for j in range(len(bits) // 8):
        v = z3.BitVecVal(0, W)
        for i in range(8):
            v = v | z3.If(to_z3_bool(bits[8 * j + i]), z3.BitVecVal(1 << i, W), z3.BitVecVal(0, W))
        out.append(v)
    return out


class FakeStdin:
    """stdin stub for StandardIO: read(1) yields one character whose raw_unicode_escape encoding is one
    (symbolic) byte, or '' at end of input."""

    def __init__(self, data: SymBytes):
        self.data, self.pos = data, 0

    def read(self, n: int) -> Any:
        assert n == 1
        if self.pos >= len(self.data):
            return ''
        b = self.data[self.pos]
        self.pos += 1

        class Ch:
            def encode(self, encoding: str = 'utf-8') -> SymBytes:
                return SymBytes([b])
        return Ch()


class FakeStdout:
    def __init__(self) -> None:
        self.writes: List[Any] = []

    def write(self, s: Any) -> None:
        self.writes.append(s)

    def flush(self) -> None:
        pass


def make_device(kind: str, inp: SymBytes, verbose: bool = False) -> Any:
    if kind == 'FixedIO':
        from flipjump.interpreter.io_devices.FixedIO import FixedIO
        return FixedIO(inp)  # type: ignore[arg-type]
    if kind == 'StandardIO':
        import importlib
        mod = importlib.import_module('flipjump.interpreter.io_devices.StandardIO')
        mod.stdin = FakeStdin(inp)  # type: ignore[attr-defined]
        mod.stdout = FakeStdout()  # type: ignore[attr-defined]
        return mod.StandardIO(verbose)
    if kind == 'KeyboardIO':
        from flipjump.interpreter.io_devices.KeyboardIO import KeyboardIO, ScriptedKeyEventSource
        return KeyboardIO(ScriptedKeyEventSource([]))
    raise ValueError(kind)


def cfg_write(cfg: Tuple[str, int, int]) -> Dict[str, Any]:
    """n symbolic bits written (one concrete-length config) -> packed bytes, incomplete-output report"""
    common.use_repo()
    kind, n, _ = cfg
    from flipjump.utils.exceptions import IncompleteOutput
    W = 24
    E = Engine(W)
    tag = f'write/{kind}/n{n}'

    def body() -> None:
        dev = make_device(kind, SymBytes([]), verbose=(n % 2 == 1))
        bits = [sym_bool(f'b{i}') for i in range(n)]
        for b in bits:
            dev.write_bit(b)
        got = dev.get_output(allow_incomplete_output=True)
        want = _bits_to_bytes_terms(bits, W)
        items: List[Tuple[Any, str]] = [(z3.BoolVal(len(got) == len(want)), f'{tag}: number of complete bytes')]
        for j, (g, x) in enumerate(zip(list(got), want)):
            items.append((to_z3(g) == x, f'{tag}: byte {j} is the 8 bits packed lsb-first'))
        try:
            strict = dev.get_output()
            raised = False
        except IncompleteOutput:
            raised = True
            strict = None
        items.append((z3.BoolVal(raised == (n % 8 != 0)), f'{tag}: incomplete trailing byte reported iff n%8 != 0'))
        if strict is not None:
            items.append((z3.BoolVal(len(strict) == len(want)), f'{tag}: strict output length'))
        E.prove_all(items)
        E.witness('write:incomplete' if n % 8 else 'write:complete', True)

    return _run(E, body, tag, {'kind': kind, 'bits_written': n})


def cfg_read(cfg: Tuple[str, int, int]) -> Dict[str, Any]:
    """L symbolic input bytes, 8L+2 reads -> bits lsb-first, end-of-input exactly after the last bit (and it stays)"""
    common.use_repo()
    kind, L, nwrites = cfg
    from flipjump.utils.exceptions import IOReadOnEOF
    W = 24
    E = Engine(W)
    tag = f'read/{kind}/len{L}/interleaved_writes{nwrites}'

    def body() -> None:
        data = sym_bytes('in', L)
        dev = make_device(kind, data)
        items: List[Tuple[Any, str]] = []
        wbits = [sym_bool(f'wb{i}') for i in range(nwrites)]
        for k in range(8 * L + 2):
            if k < nwrites:
                dev.write_bit(wbits[k])       # interleave: reads and writes must not disturb each other
            try:
                bit = dev.read_bit()
                eof = False
            except IOReadOnEOF:
                eof, bit = True, None
            items.append((z3.BoolVal(eof == (k >= 8 * L)), f'{tag}: read {k}: end-of-input exactly after the last bit'))
            if not eof and k < 8 * L:
                want = z3.Extract(k % 8, k % 8, to_z3(data[k // 8])) == 1
                items.append((to_z3_bool(bit) == want, f'{tag}: read {k} returns bit {k % 8} of byte {k // 8}'))
        got = dev.get_output(allow_incomplete_output=True)
        want_out = _bits_to_bytes_terms(wbits, W)
        items.append((z3.BoolVal(len(got) == len(want_out)), f'{tag}: output bytes while interleaving'))
        for j, (g, x) in enumerate(zip(list(got), want_out)):
            items.append((to_z3(g) == x, f'{tag}: interleaved output byte {j}'))
        E.prove_all(items)
        E.witness('read:eof-reached', True)
        if L:
            E.witness('read:data', True)

    return _run(E, body, tag, {'kind': kind, 'input_bytes': L, 'interleaved_writes': nwrites})


def cfg_keyboard(cfg: Tuple[int, int, int]) -> Dict[str, Any]:
    """m symbolic events, r reads: the bit stream equals the reference polling protocol"""
    common.use_repo()
    m, r, tic_hi = cfg
    from flipjump.interpreter.io_devices.KeyboardIO import KeyboardIO, ScriptedKeyEventSource, KeyEvent
    W = 24
    E = Engine(W)
    tag = f'keyboard/events{m}/reads{r}/tic<= {tic_hi}'

    def body() -> None:
        evs = [(sym_int(f'tic{i}', 0, tic_hi), sym_bool(f'down{i}'), sym_int(f'key{i}', 0, 255)) for i in range(m)]
        dev = KeyboardIO(ScriptedKeyEventSource([KeyEvent(t, d, k) for t, d, k in evs]))
        got: List[Any] = []
        for _ in range(r):
            got.append(dev.read_bit())            # never an end-of-input: any exception fails the path
        # reference: stable order by tic (script order among equal tics), one nibble per poll, keycode byte after an event
        order: List[Tuple[Any, Any, Any]] = []
        for e in evs:
            pos = len(order)
            while pos > 0 and bool(e[0] < order[pos - 1][0]):
                pos -= 1
            order.insert(pos, e)
        want: List[Any] = []
        tic, idx, polls, events_delivered = 0, 0, 0, 0
        while len(want) < r:
            polls += 1
            if idx < len(order) and bool(order[idx][0] <= tic):
                t, d, k = order[idx]
                idx += 1
                events_delivered += 1
                want += [to_z3_bool(d), z3.BoolVal(False), z3.BoolVal(False), z3.BoolVal(True)]     # 0x9 / 0x8 lsb-first
                want += [z3.Extract(i, i, to_z3(k)) == 1 for i in range(8)]
            else:
                want += [z3.BoolVal(False)] * 4
            tic += 1
        items = [(to_z3_bool(g) == x, f'{tag}: stream bit {i}') for i, (g, x) in enumerate(zip(got, want))]
        items.append((z3.BoolVal(dev.tic == polls), f'{tag}: one status nibble per poll (tic counter)'))
        E.prove_all(items)
        E.witness(f'keyboard:{events_delivered}-events-delivered', True)
        if m >= 2:
            E.witness('keyboard:two-events-same-tic', to_z3(evs[0][0]) == to_z3(evs[1][0]))
            E.witness('keyboard:script-order-not-tic-order', to_z3(evs[0][0]) > to_z3(evs[1][0]))

    return _run(E, body, tag, {'events': m, 'reads': r})


def cfg_broken(cfg: Any) -> Dict[str, Any]:
    common.use_repo()
    from flipjump.interpreter.io_devices.BrokenIO import BrokenIO
    from flipjump.utils.exceptions import BrokenIOUsed, IODeviceException
    E = Engine(16)

    def body() -> None:
        dev = BrokenIO()
        ok = 0
        for call in (lambda: dev.read_bit(), lambda: dev.write_bit(sym_bool('b')), lambda: dev.get_output()):
            try:
                call()
            except BrokenIOUsed as e:
                ok += isinstance(e, IODeviceException)
        E.prove(z3.BoolVal(ok == 3), 'broken: every IO action raises BrokenIOUsed (an IODeviceException)')
        E.witness('broken', True)

    return _run(E, body, 'broken', {'kind': 'BrokenIO'})


def _run(E: Engine, body: Any, tag: str, sample: Dict[str, Any]) -> Dict[str, Any]:
    t0 = time.time()
    incon: List[str] = []
    try:
        E.explore(body)
    except Inconclusive as e:
        incon.append(f'{tag}: {e}')
    except Exception as e:  # noqa: BLE001 - a foreign exception on some path is itself a failed obligation
        E.failed.append({'label': f'{tag}: unexpected {type(e).__name__}: {e}', 'model': {}, 'detail': None, 'decisions': []})
    viol = []
    for f in E.failed:
        path = common.write_replay('C17', tag, {'config': tag, 'label': f['label'], 'model': f['model']})
        viol.append({'label': f['label'], 'signature': f['label'], 'replay': path, 'detail': f['model']})
    sample = dict(sample, paths=E.paths, obligations=E.obligations)
    return {'configs': 1, **E.stats(), 'samples': [sample], 'violations': viol, 'inconclusive': incon,
            'harnesses': {tag: {'paths': E.paths, 'queries': sum(E.q.values()), 'wall_s': round(time.time() - t0, 2)}}}


def _dispatch(item: Tuple[str, Any]) -> Dict[str, Any]:
    kind, cfg = item
    part = {'write': cfg_write, 'read': cfg_read, 'keyboard': cfg_keyboard, 'broken': cfg_broken}[kind](cfg)
    return confirm(part, kind, cfg)


def confirm(part: Dict[str, Any], kind: str, cfg: Any) -> Dict[str, Any]:
    """replay every counterexample concretely on the real device; only reproducing ones are violations."""
    real = []
    for v in part['violations']:
        try:
            rep = replay_model(kind, cfg, v['detail'] or {})
        except Exception as e:  # noqa: BLE001
            rep = {'differs': False, 'error': repr(e)}
        part['replayed'] = part.get('replayed', 0) + 1
        if rep.get('differs'):
            v['detail'] = rep
            case = {'kind': kind, 'cfg': list(cfg) if isinstance(cfg, tuple) else cfg, 'model': rep.get('model')}
            v['replay'] = common.write_replay('C17', v['label'], case)
            real.append(v)
        else:
            part['inconclusive'].append(f"{v['label']}: counterexample did not reproduce on the real device ({rep})")
    part['violations'] = real
    return part


def replay_model(kind: str, cfg: Any, model: Dict[str, Any]) -> Dict[str, Any]:
    """concrete re-run on plain bytes/bools against an independent plain-python oracle"""
    common.use_repo()
    from flipjump.utils.exceptions import IOReadOnEOF, IncompleteOutput

    def pack(bits: List[bool]) -> bytes:
        return bytes(sum(int(bits[8 * j + i]) << i for i in range(8)) for j in range(len(bits) // 8))

    if kind == 'write':
        k, n, _ = cfg
        bits = [bool(model.get(f'b{i}', False)) for i in range(n)]
        dev = _concrete_device(k, b'')
        for b in bits:
            dev.write_bit(b)
        got = dev.get_output(allow_incomplete_output=True)
        try:
            dev.get_output()
            raised = False
        except IncompleteOutput:
            raised = True
        return {'differs': got != pack(bits) or raised != (n % 8 != 0), 'got': list(got), 'want': list(pack(bits)),
                'model': model}
    if kind == 'read':
        k, L, nw = cfg
        data = bytes(int(model.get(f'in{i}', 0)) for i in range(L))
        dev = _concrete_device(k, data)
        got: List[Any] = []
        for i in range(8 * L + 2):
            try:
                got.append(bool(dev.read_bit()))
            except IOReadOnEOF:
                got.append('EOF')
            except Exception as e:  # noqa: BLE001 - a foreign exception from a read is an observation, not a harness error
                got.append(f'{type(e).__name__} raised')
        want = [bool((data[i // 8] >> (i % 8)) & 1) for i in range(8 * L)] + ['EOF', 'EOF']
        return {'differs': got != want, 'got': got, 'want': want, 'model': model}
    if kind == 'keyboard':
        from flipjump.interpreter.io_devices.KeyboardIO import KeyboardIO, ScriptedKeyEventSource, KeyEvent
        m, r, _ = cfg
        evs = [KeyEvent(int(model.get(f'tic{i}', 0)), bool(model.get(f'down{i}', False)), int(model.get(f'key{i}', 0)))
               for i in range(m)]
        dev = KeyboardIO(ScriptedKeyEventSource(list(evs)))
        got2 = [bool(dev.read_bit()) for _ in range(r)]
        order = sorted(range(m), key=lambda i: (evs[i].tic, i))
        want2: List[bool] = []
        tic, idx = 0, 0
        while len(want2) < r:
            if idx < m and evs[order[idx]].tic <= tic:
                e = evs[order[idx]]
                idx += 1
                nib = 9 if e.is_down else 8
                want2 += [bool((nib >> i) & 1) for i in range(4)] + [bool((e.keycode >> i) & 1) for i in range(8)]
            else:
                want2 += [False] * 4
            tic += 1
        return {'differs': got2 != want2[:r], 'got': got2, 'want': want2[:r], 'model': model}
    return {'differs': True, 'model': model}


def _concrete_device(kind: str, data: bytes) -> Any:
    if kind == 'FixedIO':
        from flipjump.interpreter.io_devices.FixedIO import FixedIO
        return FixedIO(data)
    if kind == 'KeyboardIO':
        from flipjump.interpreter.io_devices.KeyboardIO import KeyboardIO, ScriptedKeyEventSource
        return KeyboardIO(ScriptedKeyEventSource([]))
    import io
    import importlib
    mod = importlib.import_module('flipjump.interpreter.io_devices.StandardIO')
    mod.stdin = io.StringIO(data.decode('raw_unicode_escape'))  # type: ignore[attr-defined]
    mod.stdout = io.StringIO()  # type: ignore[attr-defined]
    return mod.StandardIO(False)


def replay(path: str) -> int:
    case = json.loads(open(path).read())
    cfg = tuple(case['cfg']) if isinstance(case['cfg'], list) else case['cfg']
    rep = replay_model(case['kind'], cfg, case.get('model') or {})
    print(json.dumps(rep, indent=1, default=str))
    return 1 if rep['differs'] else 0


def run(report: Report, tier: str, only: Optional[str] = None) -> None:
    from flipjump.interpreter.io_devices.FixedIO import FixedIO
    from flipjump.interpreter.io_devices.StandardIO import StandardIO
    from flipjump.interpreter.io_devices.KeyboardIO import KeyboardIO, ScriptedKeyEventSource
    from flipjump.interpreter.io_devices.BrokenIO import BrokenIO
    report.encode(FixedIO.read_bit, FixedIO.write_bit, FixedIO.get_output, StandardIO.read_bit, StandardIO.write_bit,
                  StandardIO.get_output, KeyboardIO._poll, KeyboardIO.read_bit, KeyboardIO.write_bit, KeyboardIO.get_output,
                  KeyboardIO._queue_input_byte, KeyboardIO._queue_input_hex, ScriptedKeyEventSource.__init__,
                  ScriptedKeyEventSource.next_due_event, BrokenIO.read_bit, BrokenIO.write_bit, BrokenIO.get_output)
    report.stub('sys.stdin inside StandardIO -> object whose read(1) yields a character encoding to ONE arbitrary byte, or "" at '
                'end of input (text decoding of stdin is outside the claim)', 'sys.stdout inside StandardIO -> recorder',
                'bytes -> SymBytes (concrete length, symbolic items); int.to_bytes(1) on a proxy -> its low byte with the '
                'range precondition checked')
    quick = tier == 'quick'
    nmax = 17
    lmax = 2 if quick else 3
    items: List[Tuple[str, Any]] = []
    for kind in ('FixedIO', 'StandardIO', 'KeyboardIO'):
        for n in range(0, nmax + 1):
            items.append(('write', (kind, n, 0)))
    for kind in ('FixedIO', 'StandardIO'):
        for L in range(0, lmax + 1):
            items.append(('read', (kind, L, 0)))
        items.append(('read', (kind, 1, 9)))
    ev_max = 2 if quick else 3
    reads = (1, 4, 5, 12, 13, 16, 17, 25) if quick else (1, 4, 5, 12, 13, 14, 16, 17, 24, 25, 28, 29, 37)
    for m in range(0, ev_max + 1):
        for r in reads:
            items.append(('keyboard', (m, r, 3)))
    items.append(('keyboard', (2, 30, 1 << 20)))
    items.append(('broken', None))
    if only:
        items = [it for it in items if only in str(it)]
    report.bounds.update({'written_bits': f'0..{nmax} (every count), all bit values symbolic',
                          'input_bytes': f'0..{lmax} (every length), all byte values symbolic; 8L+2 reads',
                          'keyboard': f'0..{ev_max} events with symbolic tic in [0,3] (one config with tics up to 2^20), symbolic '
                                      f'direction and keycode; read counts {list(reads)}'})
    report.outside += ['ScriptedKeyEventSource.from_text / from_file (string parsing)', 'the pygame window event source',
                       'decoding of non-latin-1 stdin characters']
    report.assumptions += ['z3 5.1.0', 'pysym proxies', 'the reference polling protocol written in the harness (stable tic order)']
    report.require_witnesses('write:incomplete', 'write:complete', 'read:eof-reached', 'read:data',
                             'keyboard:0-events-delivered', 'keyboard:1-events-delivered', 'keyboard:2-events-delivered',
                             'keyboard:two-events-same-tic', 'keyboard:script-order-not-tic-order', 'broken')
    common.run_pool(_dispatch, items, report)
