"""The Python side of the native engine: fjm_run.run() -> _run_native() with the C core replaced by its CONTRACT.

The llsx harnesses prove what the C functions do (op step, add_segment, set_words, storage decision); C01's python harnesses prove
the python loops.  What sits between them is fjm_run._run_native: it builds the core from the Reader (segments, bulk load grouped
into contiguous runs), hands the device callbacks over, and maps the core's answer - or the exception that comes out of it - to
the run result.  Here the REAL fjm_run.run() runs with
  * fjm_reader.Reader -> a reader whose memory is a dict of concrete addresses (the listed shapes) with SYMBOLIC words,
  * _fjcore          -> a stub module whose Memory records add_segment / set_words / set_word and whose run() behaves by contract:
                        it leaves last_run_op_count = OPS (symbolic) and either returns (CAUSE, OPS, FAULT, last-ops, paused) with a
                        symbolic cause in 0..3, or raises (KeyboardInterrupt from the signal poll, a library IO error or a foreign
                        exception from a device callback),
and the obligations are:
  load (C07)     every address of the reader's memory reaches the core exactly once with its word, nothing else does; segments in order
  result (C07)   cause mapped to the same TerminationCause the python loops report, op count = OPS, fault address only for a memory error,
                 last-ops list = what the core returned
  faults (C18)   interrupt -> TerminationCause.KeyboardInterrupt with op count = OPS; library IO error -> propagates unchanged, foreign ->
                 FlipJumpRuntimeException; in every case the statistics object holds op count = OPS (the ops completed), not 0 / stale,
                 and the last-ops list holds the ring the core kept (as the python loops' list holds the ops up to the stop)
The stub's contract is itself validated on every run against a fresh build of the real core (same scenario under the real
fjm_run.run(), native vs python fast loop).
"""
from __future__ import annotations

import re
import time
import types
from typing import Any, Dict, List, Optional, Tuple

import z3

from fjv import common
from fjv.common import Inconclusive, Report
from fjv.pysym import Engine, is_sym, sym_int, to_z3

ADDRESS_SHAPES: Dict[str, List[int]] = {
    'one-run': [0, 1, 2, 3],
    'two-runs': [0, 1, 5, 6],
    'gap-of-one': [0, 1, 3],
    'single-words': [0, 2, 4],
    'far-segment': [0, 1, 1 << 40, (1 << 40) + 1],
    'adjacent-across-segments': [0, 1, 2, 3, 4, 5],
    'empty-low': [7, 8],
}
SEGMENTS: Dict[str, List[Tuple[int, int]]] = {
    'one-run': [(0, 4)], 'two-runs': [(0, 2), (5, 2)], 'gap-of-one': [(0, 4)], 'single-words': [(0, 6)],
    'far-segment': [(1 << 40, 2), (0, 2)], 'adjacent-across-segments': [(0, 2), (2, 4)], 'empty-low': [(0, 16)],
}
KINDS = ['return', 'interrupt', 'library-io', 'foreign']


def term_constants() -> Dict[str, int]:
    """TERM_* as #defined in the current _fjcore.c (the stub module must expose what the real one does)"""
    text = (common.REPO / 'flipjump' / 'interpreter' / '_fjcore.c').read_text()
    out = {m.group(1): int(m.group(2)) for m in re.finditer(r'#define\s+(TERM_[A-Z_]+)\s+(\d+)', text)}
    need = {'TERM_LOOPING', 'TERM_EOF', 'TERM_NULL_IP'}
    if not need <= set(out):
        raise Inconclusive(f'_fjcore.c no longer defines {need - set(out)}')
    return out


def one(cfg: Tuple[int, str, str]) -> Dict[str, Any]:
    common.use_repo()
    w, shape, kind = cfg
    import os
    os.environ.pop('FLIPJUMP_NO_NATIVE', None)
    from flipjump.fjm.fjm_reader import GarbageHandling, MemorySegment
    from flipjump.interpreter import fjm_run
    from flipjump.interpreter.io_devices.BrokenIO import BrokenIO
    from flipjump.utils.classes import RunStatistics, TerminationCause
    from flipjump.utils.exceptions import BrokenIOUsed, FlipJumpException, FlipJumpRuntimeException
    consts = term_constants()
    tag = f'native-glue/{kind}/{shape}/w{w}'
    E = Engine(96, timeout_ms=60_000)
    addrs = ADDRESS_SHAPES[shape]
    failures: List[Dict[str, Any]] = []

    def body() -> None:
        words = {a: sym_int(f'WORD{i}', 0, (1 << w) - 1) for i, a in enumerate(addrs)}
        OPS = sym_int('OPS', 0, 1 << 62)
        FAULT = sym_int('FAULT', 0, (1 << 64) - 1)
        CAUSE = sym_int('CAUSE', 0, 3)
        NLAST = 3
        last_ret = [sym_int(f'LASTOP{i}', 0, (1 << 64) - 1) for i in range(NLAST)]
        log: Dict[str, Any] = {'segs': [], 'stores': [], 'mem': None, 'run_kwargs': None, 'stats': None}

        class StubMemory:
            def __init__(self, width: int, *a: Any, **k: Any) -> None:
                log['mem'] = self
                log['ctor'] = (width, a, k)
                self.last_run_op_count = 0
                self.last_run_paused_seconds = 0.0
                self.storage_mode = None
                self.speculation_stats = None
                self.last_run_last_ops: List[Any] = []

            def add_segment(self, s: Any, l: Any) -> None:
                log['segs'].append((s, l))

            def set_words(self, start: Any, values: Any) -> None:
                for i, v in enumerate(list(values)):
                    log['stores'].append((start + i, v))

            def set_word(self, a: Any, v: Any) -> None:
                log['stores'].append((a, v))

            def get_word(self, a: Any) -> Any:
                return 0

            def run(self, read_bit: Any, write_bit: Any, eof_type: Any, **kw: Any) -> Any:
                log['run_kwargs'] = kw
                log['callbacks'] = (read_bit, write_bit, eof_type)
                self.last_run_op_count = OPS
                self.storage_mode = 'flat'
                if kind == 'return':
                    self.last_run_last_ops = []
                    return CAUSE, OPS, FAULT, list(last_ret), 0.0
                self.last_run_last_ops = list(last_ret)       # the ring at the stop stays readable on the object
                raise {'interrupt': KeyboardInterrupt(), 'library-io': BrokenIOUsed('device failed'), 'foreign': ValueError('device bug')}[kind]

        stub = types.SimpleNamespace(Memory=StubMemory, **consts)
        reader = types.SimpleNamespace(memory_width=w, memory=dict(words), garbage_handling=GarbageHandling.Stop,
                                       memory_segments=[MemorySegment(s, l) for s, l in SEGMENTS[shape]],
                                       assert_runnable=lambda: None)

        class Stats(RunStatistics):
            def __init__(self, memory_width: int, n: Optional[int]):
                super().__init__(memory_width, n)
                log['stats'] = self
        fake_reader_mod = types.SimpleNamespace(Reader=lambda p: reader, GarbageHandling=GarbageHandling)
        real = (fjm_run.fjm_reader, fjm_run.RunStatistics, fjm_run._fjcore)
        fjm_run.fjm_reader, fjm_run.RunStatistics, fjm_run._fjcore = fake_reader_mod, Stats, stub     # type: ignore[assignment,misc]
        io = BrokenIO()
        out: Dict[str, Any] = {}
        try:
            try:
                t = fjm_run.run('/mem/x.fjm', io_device=io, last_ops_debugging_list_length=NLAST)       # type: ignore[arg-type]
                out = {'how': 'returned', 't': t}
            except FlipJumpException as e:
                out = {'how': 'raised', 'exc': e}
        finally:
            fjm_run.fjm_reader, fjm_run.RunStatistics, fjm_run._fjcore = real       # type: ignore[assignment,misc]
        items: List[Tuple[Any, str]] = []
        add = lambda c, l: items.append((c if not isinstance(c, bool) else z3.BoolVal(c), f'{tag}: {l}'))  # noqa: E731
        eq = lambda a, b: (to_z3(a) == to_z3(b)) if (is_sym(a) or is_sym(b)) else z3.BoolVal(a == b)  # noqa: E731
        add(log['mem'] is not None and log['run_kwargs'] is not None, 'the native core was built and run')
        if log['mem'] is None:
            E.prove_all(items)
            return
        # ---- load
        add([tuple(x) for x in log['segs']] == SEGMENTS[shape], 'every segment is declared to the core, in order')
        got_addrs = [a for a, _ in log['stores']]
        add(all(isinstance(a, int) for a in got_addrs) and sorted(got_addrs) == sorted(addrs),
            f'every word of the image is loaded exactly once and nothing else ({sorted(map(str, got_addrs))} vs {sorted(addrs)})')
        for a, v in log['stores']:
            if isinstance(a, int) and a in words:
                add(eq(v, words[a]), f'word {a} is loaded with its value')
        add(log['ctor'][0] == w, 'the core is built with the reader\'s width')
        add(log['run_kwargs'].get('last_ops_length') == NLAST and not log['run_kwargs'].get('start_ip'), 'last-ops length handed over, run starts at ip 0')
        cb = log.get('callbacks')
        add(cb is not None and cb[0] == io.read_bit and cb[1] == io.write_bit, 'the device\'s own read_bit / write_bit are the callbacks')
        # ---- outcome
        st = log['stats']
        add(st is not None, 'statistics object exists')
        if st is not None:
            add(eq(st.op_counter, OPS), 'the statistics hold the op count the core completed (also on the exception paths)')
            add(st.storage_mode == 'flat', 'the storage mode is handed back (also on the exception paths)')
        if kind != 'return' and st is not None:
            lo_f = list(st.last_ops_addresses) if st.last_ops_addresses is not None else None
            add(lo_f is not None and len(lo_f) == NLAST, 'last-ops list after a fault holds the ops executed up to the stop (not empty / stale)')
            if lo_f is not None and len(lo_f) == NLAST:
                for i, (a, b) in enumerate(zip(lo_f, last_ret)):
                    add(eq(a, b), f'last-ops entry {i} after a fault')
        if kind == 'return':
            add(out['how'] == 'returned', 'a run that ends by itself returns')
            if out['how'] == 'returned':
                t = out['t']
                cmap = {consts['TERM_LOOPING']: TerminationCause.Looping, consts['TERM_EOF']: TerminationCause.EOF,
                        consts['TERM_NULL_IP']: TerminationCause.NullIP}
                cz = to_z3(CAUSE)
                want = [z3.Implies(cz == k, z3.BoolVal(t.termination_cause == v)) for k, v in cmap.items()]
                want.append(z3.Implies(z3.And(*[cz != k for k in cmap]), z3.BoolVal(t.termination_cause == TerminationCause.RuntimeMemoryError)))
                add(z3.And(*want), 'termination cause mapped like the python loops report it')
                add(eq(t.op_counter, OPS), 'op count of the result')
                if t.termination_cause == TerminationCause.RuntimeMemoryError:
                    add(eq(t.memory_error_address, FAULT), 'fault address of a memory error')
                    E.witness('glue:memory-error')
                else:
                    add(t.memory_error_address is None, 'no fault address without a memory error')
                lo = list(st.last_ops_addresses) if st is not None and st.last_ops_addresses is not None else None
                add(lo is not None and len(lo) == NLAST, 'last-ops list present')
                if lo is not None and len(lo) == NLAST:
                    for i, (a, b) in enumerate(zip(lo, last_ret)):
                        add(eq(a, b), f'last-ops entry {i}')
                E.witness('glue:returned')
        elif kind == 'interrupt':
            add(out['how'] == 'returned' and out['t'].termination_cause == TerminationCause.KeyboardInterrupt, 'an interrupt ends the run as TerminationCause.KeyboardInterrupt')
            if out['how'] == 'returned':
                add(eq(out['t'].op_counter, OPS), 'an interrupted run reports the ops completed')
            E.witness('glue:interrupted')
        elif kind == 'library-io':
            add(out['how'] == 'raised' and isinstance(out.get('exc'), BrokenIOUsed), 'a library IO error propagates unchanged')
            E.witness('glue:io-error')
        else:
            add(out['how'] == 'raised' and isinstance(out.get('exc'), FlipJumpRuntimeException) and isinstance(out['exc'].__cause__, ValueError),
                'a foreign exception becomes FlipJumpRuntimeException with its cause')
            E.witness('glue:foreign')
        E.prove_all(items)

    t0 = time.time()
    incon: List[str] = []
    try:
        E.explore(body)
    except Inconclusive as e:
        incon.append(f'{tag}: {e}')
    except Exception:  # noqa: BLE001
        import traceback
        incon.append(f'{tag}: harness error: {traceback.format_exc()[-600:]}')
    viol, replayed, seen = [], 0, set()
    for f in E.failed:
        key = f['label'].split(': ', 1)[1][:70]
        if key in seen:
            continue
        seen.add(key)
        replayed += 1
        case = {'glue': True, 'cfg': list(cfg), 'label': f['label'], 'model': f['model']}
        rep = replay_case(case)
        if rep.get('differs'):
            viol.append({'label': f['label'], 'signature': f'native-glue:{kind}:{key[:60]}', 'replay': common.write_replay('C18' if kind != 'return' else 'C07', tag + key[:20], case),
                         'detail': rep})
        else:
            incon.append(f"{f['label']}: counterexample did not reproduce on the real engines: {str(rep)[:400]}")
    return {'configs': 1, **E.stats(), 'samples': [], 'violations': viol, 'inconclusive': incon, 'replayed': replayed,
            'harnesses': {tag: {'paths': E.paths, 'queries': sum(E.q.values()), 'wall_s': round(time.time() - t0, 2)}}}


# ----------------------------------------------------------------------------------------------- replay on the real engines

def _child(case: Dict[str, Any], q: Any) -> None:
    """the real fjm_run.run() with a fresh build of the real core, against the python fast loop: a self-modifying counter program
    whose run is stopped by the chosen fault after some ops (or ends by itself)"""
    import os
    import signal
    import sys
    try:
        common.use_repo()
        from fjv.llsx import native_replay
        core = native_replay.fresh_core()
        from flipjump.fjm import fjm_writer
        from flipjump.fjm.fjm_consts import FJMVersion
        from flipjump.interpreter import fjm_run
        from flipjump.interpreter.io_devices.IODevice import IODevice
        from flipjump.utils.exceptions import BrokenIOUsed, FlipJumpException
        w, shape, kind = case['cfg']
        w = max(w, 16)
        d = common.scratch_dir('glue')
        path = d / 'p.fjm'
        # program (words 2,3 are the IO cell): op0 outputs 0 and jumps to op2; op2 outputs 1 and jumps to op3; op3 outputs 0 and jumps
        # back to op2 ... forever (stopped by the device fault); for 'return' op3 jumps to itself (halts by looping after 3 ops)
        ops = [2 * w, 4 * w, 0, 0, 2 * w + 1, 6 * w, 2 * w, (6 * w) if kind == 'return' else 4 * w]
        wr = fjm_writer.Writer(path, w, FJMVersion.NormalVersion)
        wr.add_data(ops)
        wr.add_segment(0, 8, 0, 8)
        wr.write_to_file()
        STOP_AFTER = 7

        class Dev(IODevice):
            def __init__(self) -> None:
                self.out: List[bool] = []

            def read_bit(self) -> bool:
                return False

            def write_bit(self, bit: bool) -> None:
                self.out.append(bool(bit))
                if len(self.out) == STOP_AFTER and kind != 'return':
                    if kind == 'interrupt':
                        raise KeyboardInterrupt()
                    raise BrokenIOUsed('x') if kind == 'library-io' else ValueError('x')

            def get_output(self, *a: Any, **k: Any) -> bytes:
                return b''

        def go(native: bool) -> Dict[str, Any]:
            dev = Dev()
            if native:
                os.environ.pop('FLIPJUMP_NO_NATIVE', None)
                fjm_run._fjcore = core
            else:
                os.environ['FLIPJUMP_NO_NATIVE'] = '1'
            holder: Dict[str, Any] = {}
            real_stats = fjm_run.RunStatistics

            class Stats(real_stats):      # type: ignore[misc,valid-type]
                def __init__(self, *a: Any) -> None:
                    super().__init__(*a)
                    holder['s'] = self
            fjm_run.RunStatistics = Stats    # type: ignore[misc]
            try:
                try:
                    t = fjm_run.run(path, io_device=dev, last_ops_debugging_list_length=3)
                    res = {'how': 'returned', 'cause': str(t.termination_cause), 'ops': t.op_counter, 'fault': t.memory_error_address}
                except FlipJumpException as e:
                    res = {'how': f'raised {type(e).__name__}'}
            finally:
                fjm_run.RunStatistics = real_stats    # type: ignore[misc]
            res['stats_ops'] = holder['s'].op_counter
            res['out'] = len(dev.out)
            res['last_ops'] = list(holder['s'].last_ops_addresses or [])
            return res
        a, b = go(True), go(False)
        q.put({'differs': a != b, 'native': a, 'python': b})
    except Exception:  # noqa: BLE001
        import traceback
        q.put({'differs': False, 'error': traceback.format_exc()[-700:]})


def replay_case(case: Dict[str, Any], timeout: int = 120) -> Dict[str, Any]:
    import multiprocessing as mp
    ctx = mp.get_context('fork')
    q = ctx.Queue()
    p = ctx.Process(target=_child, args=(case, q))
    p.start()
    try:
        rep = q.get(timeout=timeout)
    except Exception:  # noqa: BLE001
        rep = {'differs': False, 'why': f'no result from the replay child (exit code {p.exitcode})'}
    p.join(5)
    if p.is_alive():
        p.kill()
    return rep


def replay(case: Dict[str, Any]) -> int:
    import json
    rep = replay_case(case)
    print(json.dumps(rep, indent=1, default=str))
    return 1 if rep.get('differs') else 0


def run(report: Report, tier: str, only: Optional[str], kinds: List[str]) -> None:
    from flipjump.interpreter import fjm_run
    report.encode(fjm_run.run, fjm_run._run_native, fjm_run._is_native_engine_usable)
    report.stub('_fjcore (inside fjm_run) -> stub module: Memory records add_segment / set_words / set_word; run() leaves last_run_op_count = OPS '
                '(symbolic) and returns (CAUSE in 0..3, OPS, FAULT, 3 last-op addresses, 0.0), all symbolic, or raises KeyboardInterrupt / '
                'BrokenIOUsed / ValueError; the TERM_* constants are read from the #defines of the current _fjcore.c',
                'fjm_reader.Reader (inside fjm_run) -> a reader with the listed concrete address sets and symbolic words')
    report.bounds['native_glue'] = f'address shapes {list(ADDRESS_SHAPES)} (concrete addresses, symbolic words), outcome kinds {kinds}, w in 16/64'
    cfgs: List[Tuple[int, str, str]] = []
    for kind in kinds:
        shapes = list(ADDRESS_SHAPES) if kind == 'return' else ['one-run', 'two-runs']
        for w in ((16, 64) if tier == 'thorough' or kind != 'return' else (64,)):
            for sh in shapes:
                cfgs.append((w, sh, kind))
    # the stub's contract against the real thing: the same scenario on a fresh build of the current _fjcore.c under the real
    # fjm_run.run() vs the python fast loop (outcome, op count, statistics, output count, last-ops list) - not solver-decided
    if not only or 'contract' in only or 'native-glue' in only:
        for kind in kinds:
            rep = replay_case({'cfg': [16, 'one-run', kind], 'model': {}})
            report.validation_runs += 1
            if rep.get('differs'):
                case = {'glue': True, 'cfg': [16, 'one-run', kind], 'label': f'native-glue/contract/{kind}', 'model': {}}
                report.violations.append({'label': case['label'], 'signature': f'native-glue:contract:{kind}',
                                          'replay': common.write_replay('C18' if kind != 'return' else 'C07', f'native-glue_contract_{kind}', case), 'detail': rep})
            elif 'error' in rep or 'why' in rep:
                report.inconclusive.append(f'native-glue/contract/{kind}: {str(rep)[:300]}')
    if only:
        cfgs = [c for c in cfgs if only in f'native-glue/{c[2]}/{c[1]}/w{c[0]}']
    else:
        report.require_witnesses(*{'return': ['glue:returned', 'glue:memory-error'], 'interrupt': ['glue:interrupted'], 'library-io': ['glue:io-error'],
                                   'foreign': ['glue:foreign']}[kinds[0]])
    common.run_pool(one, cfgs, report)
