"""C04 - hex library macros compute their documented function for every operand (fjsx, see fjv/stlcheck.py)."""
from __future__ import annotations

import json
from typing import Any, Dict, List, Optional, Tuple

import z3

from fjv import common, fjsx, stlcheck
from fjv.common import Report
from fjv.stlcheck import Spec

N12 = [{'n': 1}, {'n': 2}]
N123 = [{'n': 1}, {'n': 2}, {'n': 3}]
N34 = [{'n': 3}, {'n': 4}]


def zx(v: Any, bits: int) -> Any:
    return z3.ZeroExt(bits - v.size(), v) if v.size() < bits else v


def popcount(v: Any, out_bits: int) -> Any:
    r = z3.BitVecVal(0, out_bits)
    for i in range(v.size()):
        r = r + zx(z3.Extract(i, i, v), out_bits)
    return r


def sxt(v: Any, signed_bits: int, bits: int) -> Any:
    return z3.SignExt(bits - signed_bits, z3.Extract(signed_bits - 1, 0, v))


SPECS: List[Spec] = [
    # ---- memory
    Spec('hex.zero', 'hex.zero {n}, a', {'a': 'n'}, 'hex', lambda V, P: {'a': z3.BitVecVal(0, 4 * P['n'])}, 'x[:n] = 0', 'hex/memory.fj', N12, N34),
    Spec('hex.mov', 'hex.mov {n}, a, b', {'a': 'n', 'b': 'n'}, 'hex', lambda V, P: {'a': V['b']}, 'dst[:n] = src[:n]', 'hex/memory.fj', N12, N34),
    Spec('hex.xor_by', 'hex.xor_by {n}, a, {c}', {'a': 'n'}, 'hex', lambda V, P: {'a': V['a'] ^ (P['c'] & ((1 << 4 * P['n']) - 1))},
         'hex[:n] ^= val (constant)', 'hex/memory.fj', [{'n': 2, 'c': 0xA5}, {'n': 1, 'c': 0}], [{'n': 3, 'c': 0xFFF}]),
    Spec('hex.set', 'hex.set {n}, a, {c}', {'a': 'n'}, 'hex', lambda V, P: {'a': z3.BitVecVal(P['c'], 4 * P['n'])}, 'hex[:n] = val (constant)',
         'hex/memory.fj', [{'n': 2, 'c': 0x3C}], [{'n': 3, 'c': 0x10F}]),
    Spec('hex.swap', 'hex.swap {n}, a, b', {'a': 'n', 'b': 'n'}, 'hex', lambda V, P: {'a': V['b'], 'b': V['a']},
         'hex1[:n], hex2[:n] = hex2[:n], hex1[:n]', 'hex/memory.fj', N12, N34),
    # ---- logic
    Spec('hex.xor', 'hex.xor {n}, a, b', {'a': 'n', 'b': 'n'}, 'hex', lambda V, P: {'a': V['a'] ^ V['b']}, 'dst[:n] ^= src[:n]', 'hex/logics.fj', N12, N34),
    Spec('hex.xor_zero', 'hex.xor_zero {n}, a, b', {'a': 'n', 'b': 'n'}, 'hex',
         lambda V, P: {'a': V['a'] ^ V['b'], 'b': z3.BitVecVal(0, 4 * P['n'])}, 'src[:n] = 0', 'hex/logics.fj', N12, N34),
    Spec('hex.or', 'hex.or {n}, a, b', {'a': 'n', 'b': 'n'}, 'hex', lambda V, P: {'a': V['a'] | V['b']}, 'dst[:n] |= src[:n]', 'hex/logics.fj', N12, N34),
    Spec('hex.and', 'hex.and {n}, a, b', {'a': 'n', 'b': 'n'}, 'hex', lambda V, P: {'a': V['a'] & V['b']}, 'dst[:n] &= src[:n]', 'hex/logics.fj', N12, N34),
    Spec('hex.not', 'hex.not {n}, a', {'a': 'n'}, 'hex', lambda V, P: {'a': ~V['a']}, '', 'hex/logics.fj', N12, N34),
    # ---- arithmetic
    Spec('hex.inc', 'hex.inc {n}, a', {'a': 'n'}, 'hex', lambda V, P: {'a': V['a'] + 1}, 'hex[:n]++', 'hex/math_basic.fj', N123, N34),
    Spec('hex.dec', 'hex.dec {n}, a', {'a': 'n'}, 'hex', lambda V, P: {'a': V['a'] - 1}, 'hex[:n]--', 'hex/math_basic.fj', N123, N34),
    Spec('hex.neg', 'hex.neg {n}, a', {'a': 'n'}, 'hex', lambda V, P: {'a': -V['a']}, 'x[:n] = -x[:n]', 'hex/math_basic.fj', N12, [{'n': 3}]),
    Spec('hex.abs', 'hex.abs {n}, a', {'a': 'n'}, 'hex', lambda V, P: {'a': z3.If(V['a'] < 0, -V['a'], V['a'])}, 'x[:n] = |x[:n]|',
         'hex/math_basic.fj', N12, [{'n': 3}]),
    Spec('hex.sign_extend', 'hex.sign_extend {f}, {s}, a', {'a': 'f'}, 'hex', lambda V, P: {'a': sxt(V['a'], 4 * P['s'], 4 * P['f'])},
         'sign-extends hex[:signed_n] into hex[:full_n]', 'hex/math_basic.fj', [{'f': 2, 's': 1}, {'f': 3, 's': 2}], [{'f': 4, 's': 1}]),
    Spec('hex.count_bits', 'hex.count_bits {n}, d, a', {'d': '1', 'a': 'n'}, 'hex', lambda V, P: {'d': popcount(V['a'], 4)},
         'dst[:small_n] = x[:n].#on-bits', 'hex/math_basic.fj', [{'n': 1}], []),
    Spec('hex.add', 'hex.add {n}, a, b', {'a': 'n', 'b': 'n'}, 'hex', lambda V, P: {'a': V['a'] + V['b']}, 'dst[:n] += src[:n]', 'hex/math.fj',
         N123, [{'n': 4}]),
    Spec('hex.sub', 'hex.sub {n}, a, b', {'a': 'n', 'b': 'n'}, 'hex', lambda V, P: {'a': V['a'] - V['b']}, 'dst[:n] -= src[:n]', 'hex/math.fj',
         N123, [{'n': 4}]),
    Spec('hex.add_constant', 'hex.add_constant {n}, a, {c}', {'a': 'n'}, 'hex', lambda V, P: {'a': V['a'] + (P['c'] & ((1 << 4 * P['n']) - 1))},
         'dst[:n] += const', 'hex/math.fj', [{'n': 2, 'c': 0x1F}, {'n': 2, 'c': 0}, {'n': 1, 'c': 9}], [{'n': 3, 'c': 0x7FF}]),
    Spec('hex.sub_constant', 'hex.sub_constant {n}, a, {c}', {'a': 'n'}, 'hex', lambda V, P: {'a': V['a'] - (P['c'] & ((1 << 4 * P['n']) - 1))},
         '-= const', 'hex/math.fj', [{'n': 2, 'c': 0x1F}, {'n': 1, 'c': 9}], [{'n': 3, 'c': 0x801}]),
    Spec('hex.add_shifted', 'hex.add_shifted {dn}, {sn}, a, b, {sh}', {'a': 'dn', 'b': 'sn'}, 'hex',
         lambda V, P: {'a': V['a'] + (zx(V['b'], 4 * P['dn']) << (4 * P['sh']))}, 'dst[:dst_n] += src[:src_n] << (4*hex_shift)', 'hex/math.fj',
         [{'dn': 3, 'sn': 1, 'sh': 1}, {'dn': 2, 'sn': 1, 'sh': 0}], [{'dn': 4, 'sn': 2, 'sh': 2}]),
    Spec('hex.sub_shifted', 'hex.sub_shifted {dn}, {sn}, a, b, {sh}', {'a': 'dn', 'b': 'sn'}, 'hex',
         lambda V, P: {'a': V['a'] - (zx(V['b'], 4 * P['dn']) << (4 * P['sh']))}, 'dst[:dst_n] -= src[:src_n] << (4*hex_shift)', 'hex/math.fj',
         [{'dn': 3, 'sn': 1, 'sh': 1}], [{'dn': 4, 'sn': 2, 'sh': 2}]),
    # ---- shifts
    Spec('hex.shl_bit', 'hex.shl_bit {n}, a', {'a': 'n'}, 'hex', lambda V, P: {'a': V['a'] << 1}, 'dst[:n] <<= 1', 'hex/shifts.fj', N12, N34),
    Spec('hex.shr_bit', 'hex.shr_bit {n}, a', {'a': 'n'}, 'hex', lambda V, P: {'a': z3.LShR(V['a'], 1)}, 'dst[:n] >>= 1', 'hex/shifts.fj', N12, N34),
    Spec('hex.shl_hex', 'hex.shl_hex {n}, a', {'a': 'n'}, 'hex', lambda V, P: {'a': V['a'] << 4}, 'dst[:n] <<= 4', 'hex/shifts.fj', N12, N34),
    Spec('hex.shr_hex', 'hex.shr_hex {n}, a', {'a': 'n'}, 'hex', lambda V, P: {'a': z3.LShR(V['a'], 4)}, 'dst[:n] >>= 4', 'hex/shifts.fj', N12, N34),
    Spec('hex.shl_hex(times)', 'hex.shl_hex {n}, {t}, a', {'a': 'n'}, 'hex', lambda V, P: {'a': V['a'] << (4 * P['t'])}, 'dst[:n] <<= 4*times',
         'hex/shifts.fj', [{'n': 3, 't': 2}, {'n': 2, 't': 0}], [{'n': 4, 't': 4}]),
    Spec('hex.shr_hex(times)', 'hex.shr_hex {n}, {t}, a', {'a': 'n'}, 'hex', lambda V, P: {'a': z3.LShR(V['a'], 4 * P['t'])}, 'dst[:n] >>= 4*times',
         'hex/shifts.fj', [{'n': 3, 't': 2}], [{'n': 4, 't': 4}]),
    # ---- conditional jumps
    Spec('hex.if', 'hex.if {n}, a, X_l0, X_l1', {'a': 'n'}, 'hex', lambda V, P: {}, 'if hex[:n]==0 goto l0, else goto l1.', 'hex/cond_jumps.fj',
         N12, N34, exits=['X_l0', 'X_l1'], exit=lambda V, P: z3.If(V['a'] == 0, 0, 1)),
    Spec('hex.if0', 'hex.if0 {n}, a, X_l0', {'a': 'n'}, 'hex', lambda V, P: {}, 'if hex[:n]==0 goto l0, else continue.', 'hex/cond_jumps.fj',
         N12, [], exits=['X_l0'], exit=lambda V, P: z3.If(V['a'] == 0, 0, 1)),
    Spec('hex.if1', 'hex.if1 {n}, a, X_l1', {'a': 'n'}, 'hex', lambda V, P: {}, 'if hex[:n]!=0 goto l1, else continue.', 'hex/cond_jumps.fj',
         N12, [], exits=['X_l1'], exit=lambda V, P: z3.If(V['a'] != 0, 0, 1)),
    Spec('hex.sign', 'hex.sign {n}, a, X_neg, X_zpos', {'a': 'n'}, 'hex', lambda V, P: {}, 'if number[:n] < 0 jump to neg', 'hex/cond_jumps.fj',
         N12, [{'n': 3}], exits=['X_neg', 'X_zpos'], exit=lambda V, P: z3.If(V['a'] < 0, 0, 1)),
    Spec('hex.cmp', 'hex.cmp {n}, a, b, X_lt, X_eq, X_gt', {'a': 'n', 'b': 'n'}, 'hex', lambda V, P: {}, 'compares a[:n] to b[:n].',
         'hex/cond_jumps.fj', N12, [{'n': 3}], exits=['X_lt', 'X_eq', 'X_gt'],
         exit=lambda V, P: z3.If(z3.ULT(V['a'], V['b']), 0, z3.If(V['a'] == V['b'], 1, 2))),
    Spec('hex.scmp', 'hex.scmp {n}, a, b, X_lt, X_eq, X_gt', {'a': 'n', 'b': 'n'}, 'hex', lambda V, P: {}, 'SIGNED', 'hex/cond_jumps.fj',
         N12, [{'n': 3}], exits=['X_lt', 'X_eq', 'X_gt'], exit=lambda V, P: z3.If(V['a'] < V['b'], 0, z3.If(V['a'] == V['b'], 1, 2))),
    Spec('hex.min', 'hex.min {n}, d, a, b', {'d': 'n', 'a': 'n', 'b': 'n'}, 'hex', lambda V, P: {'d': z3.If(z3.ULT(V['a'], V['b']), V['a'], V['b'])},
         'dst[:n] = min(a[:n], b[:n])', 'hex/cond_jumps.fj', N12, [{'n': 3}]),
    Spec('hex.max', 'hex.max {n}, d, a, b', {'d': 'n', 'a': 'n', 'b': 'n'}, 'hex', lambda V, P: {'d': z3.If(z3.ULT(V['a'], V['b']), V['b'], V['a'])},
         'dst[:n] = max(a[:n], b[:n])', 'hex/cond_jumps.fj', N12, [{'n': 3}]),
]


def jobs(specs: List[Spec], tier: str, only: Optional[str]) -> List[Tuple[int, int, Dict[str, int]]]:
    out = []
    for i, sp in enumerate(specs):
        plist = sp.params + (sp.params_thorough if tier == 'thorough' else [])
        widths = sp.widths if tier == 'quick' else tuple(sorted(set(sp.widths) | {32, 64}))
        if sp.kind == 'hex':
            widths = tuple(x for x in widths if x >= 32)
        for w in widths:
            for p in plist:
                if p.get('minw', 0) > w:
                    continue
                if only and only not in f'{sp.name}/w{w}/' + ','.join(f'{k}={v}' for k, v in p.items()):
                    continue
                out.append((i, w, p))
    return out


def _one(job: Tuple[int, int, Dict[str, int]]) -> Dict[str, Any]:
    i, w, p = job
    return stlcheck.check_macro(SPECS[i], w, p)


def replay(path: str) -> int:
    case = json.loads(open(path).read())
    sp = next(s for s in SPECS if s.name == case['macro'])
    rep = stlcheck.replay_macro(sp, case['w'], case['params'], case['model'], case['phase'])
    print(json.dumps(rep, indent=1, default=str))
    return 1 if rep['differs'] else 0


def run(report: Report, tier: str, only: Optional[str] = None) -> None:
    report.functions += [{'name': f'{sp.name} ({sp.call})', 'file': 'flipjump/stl/' + sp.file, 'doc': sp.doc} for sp in SPECS]
    report.functions.append({'name': 'the assembled image of stl.startup_and_init_all + the macro (real assembler, current stl)', 'file': 'flipjump/stl/*.fj'})
    report.stub('none: the program is assembled by the real assembler and executed by the symbolic FlipJump machine fjsx (validated against '
                'the real interpreter by replaying every counterexample)')
    report.bounds.update({'macros': [sp.name for sp in SPECS], 'vector_lengths': 'n <= 2 (3 for carry chains) in quick, up to 4 in thorough; every '
                          'operand value symbolic', 'widths': 'quick: w=64; thorough: w in {32, 64}',
                          're_entry': 'each call site is executed a second time from the state the first execution left, with fresh operands',
                          'fuel': '2,000,000 machine steps and 4000 dispatches per configuration'})
    report.outside += ['hex.mul / mul10 / add_mul / div / idiv (not encoded in this revision)', 'vector lengths above the bound (carry chains '
                       'are not proved by induction over n)', 'w=16 (hex.init does not fit)', 'aliased operands (dst == src)',
                       'composition of DIFFERENT macros beyond the re-entry check (shared table cells are checked to be restored)']
    report.assumptions += ['the FlipJump machine of fjsx.Machine.step = pyspec (aligned ops only)', 'the spec table transcribed from the doc '
                           'comments (guarded against drift)', 'z3 5.1.0']
    js = jobs(SPECS, tier, only)
    common.run_pool(_one, js, report)
    fjsx.cleanup()
