"""C15 - debugging never changes the program and stops exactly where asked.

pysym on the real _run_featured with a real BreakpointHandler (should_break, handle_breakpoint,
query_user_for_debug_action, apply_debug_action, get_breakpoint_message_body, handle_read_memory,
show_memory_address, calculate_variable_value): the machine state is the fully symbolic one of C01, the op counter at the
start and the pending next-break are symbolic, the breakpoint set is an arbitrary predicate, the command script is a
configuration.  The reference is pyspec (what the op must do) + a 15-line model of the debugger commands.
"""
from __future__ import annotations

import json
import time
from typing import Any, Dict, List, Optional, Tuple

import z3

from fjv import common, pyengine, pyspec
from fjv.common import Report, Inconclusive
from fjv.pysym import (Engine, SymBool, assume, engine, lift, mkb, sym_hex, sym_int, to_z3, to_z3_bool, tokens_in, is_sym)


class NoLabels:
    """address_to_label stand-in: no labels known (membership of a symbolic address needs no hashing)"""

    def __contains__(self, k: Any) -> bool:
        return False

    def __bool__(self) -> bool:
        return False

    def __iter__(self) -> Any:
        return iter(())


class SymBreakpoints:
    """dict look-alike for BreakpointHandler.breakpoints: membership is an arbitrary predicate over addresses"""

    def __init__(self, pred: Any):
        self.pred = pred

    def __contains__(self, ip: Any) -> bool:
        return engine().branch(z3.Select(self.pred, lift(ip)[0]))

    def __getitem__(self, ip: Any) -> Optional[str]:
        return None

    def __bool__(self) -> bool:
        return True


def install_stubs(script: List[Optional[str]], log: List[Any]) -> None:
    from flipjump.interpreter.debugging import breakpoints as bp
    from flipjump.interpreter import fjm_run
    lines = list(script)

    def ask(prompt: str) -> Optional[str]:
        return lines.pop(0) if lines else 'c'        # a script that ran out continues (the model does the same)
    bp.ask_for_command = ask                                          # type: ignore[attr-defined]
    bp.show_message = lambda body_message, title_message: log.append((title_message, body_message))  # type: ignore[attr-defined]
    bp.print = lambda *a, **k: None                                  # type: ignore[attr-defined]
    bp.hex = sym_hex                                                 # type: ignore[attr-defined]
    fjm_run.print = lambda *a, **k: None                             # type: ignore[attr-defined]
    pyengine.install_format_stubs()


STUBS = ['BreakpointHandler.get_address_str (label pretty-printing for message text) -> constant text in the loop harness',
         'ask_for_command -> scripted lines (None = EOF)', 'show_message / print -> recorder', 'hex() -> token text',
         'BreakpointHandler.breakpoints -> arbitrary membership predicate (z3 array)', 'IO device -> SymIO',
         'last-ops container -> Ring cutting the loop after K ops']

SCRIPTS: List[Tuple[str, List[Optional[str]]]] = [
    ('step', ['s']), ('step-word', ['step']), ('skip3', ['skip 3']), ('skip-hex', ['s 0x10']), ('continue', ['c']),
    ('continue-word', ['continue']), ('continue-all', ['c*']), ('continue-all-words', ['continue all']), ('quit', ['q']),
    ('eof', [None]), ('noise-then-step', ['', 'bogus cmd', 'h', 'skip zz', 'skip 0', 's 1 2'.split(' ')[0]]),
    ('read-then-continue', ['r 0', 'read 0x100', 'r nosuchlabel', 'r', 'c']), ('read-var-then-step', ['r :b2:0', 'r :h2:1:0', 's']),
    ('step-step', ['s', 's']), ('skip1-then-continue', ['skip 1', 'c']), ('step-then-quit', ['s', 'q']),
]


def debugger_model(script: List[Optional[str]]) -> Any:
    """reference: consume script lines at a pause -> ('step',0) | ('skip',n) | ('continue',0) | ('continue_all',0) | ('exit',0)"""
    def next_action(lines: List[Optional[str]]) -> Tuple[str, int]:
        while True:
            line = lines.pop(0) if lines else 'c'
            if line is None:
                return ('exit', 0)
            t = line.split()
            if not t:
                continue
            c, a = t[0].lower(), (t[1] if len(t) > 1 else None)
            if c in ('s', 'step') and a is None:
                return ('step', 0)
            if c in ('s', 'skip') and a is not None:
                try:
                    n = int(a, 0)
                except ValueError:
                    continue
                if n > 0:
                    return ('skip', n)
                continue
            if c in ('c', 'cont', 'continue') and a is None:
                return ('continue', 0)
            if c in ('c*', 'ca') or line.lower() == 'continue all':
                return ('continue_all', 0)
            if c in ('q', 'quit', 'exit'):
                return ('exit', 0)
    return next_action


def loop_config(cfg: Tuple[int, str, str, int]) -> Dict[str, Any]:
    common.use_repo()
    w, mode, sname, nb_kind = cfg
    from flipjump.interpreter.debugging.breakpoints import BreakpointHandler
    from flipjump.interpreter import fjm_run
    from flipjump.utils.classes import RunStatistics
    from flipjump.utils.exceptions import IOReadOnEOF, FlipJumpRuntimeMemoryException
    script = dict(SCRIPTS)[sname]
    W = max(2 * w + 16, 56)
    K = 1 if mode == 'first' else 2
    E = Engine(W, timeout_ms=180_000, max_paths=50000)
    tag = f'loop/w{w}/{mode}/{sname}/nb{nb_kind}'
    ww = w.bit_length() - 1

    def body() -> None:
        st = pyengine.PyState(w, W, 1 if mode == 'first' else 0, K)
        if mode == 'tramp':
            P, M = st.P0, st.M0
            bv = lambda v: z3.BitVecVal(v, W)  # noqa: E731
            f0 = z3.ZeroExt(W - w, z3.Select(M, bv(0)))
            fw0 = z3.LShR(f0, ww)
            x0 = z3.ZeroExt(W - w, z3.Select(M, bv(1)))
            assume(z3.And(z3.Select(P, bv(0)), z3.Select(P, bv(1)), f0 != 2 * w, f0 != 2 * w + 1, fw0 != 0, fw0 != 1,
                          z3.Select(P, fw0), z3.UGE(x0, bv(2 * w))))
        log: List[Any] = []
        install_stubs(script, log)
        B = z3.Array('B', z3.BitVecSort(W), z3.BoolSort())
        n0 = sym_int('N0', 0, 1 << 40)
        nb0: Any = None if nb_kind == 0 else sym_int('NB', 0, 1 << 41)
        pauses: List[Dict[str, Any]] = []
        io = pyengine.SymIO(st.avail, st.bits, IOReadOnEOF)

        class Handler(BreakpointHandler):
            def get_address_str(self, address: Any) -> str:       # label pretty-printing of message text: stubbed
                return 'addr'

            def query_user_for_debug_action(self, ip: Any, mem: Any, op_counter: Any) -> Tuple[str, int]:
                m = st.reader.memory
                pauses.append({'ip': ip, 'opc': op_counter, 'outs': len(io.out), 'reads': io.reads,
                               'present': m.present, 'val': m.val})
                return super().query_user_for_debug_action(ip, mem, op_counter)

        h = Handler(SymBreakpoints(B), NoLabels(), {})     # type: ignore[arg-type]
        h.next_break = nb0
        stats = RunStatistics(w, None)
        stats.op_counter = n0
        ring = pyengine.Ring(K)
        stats.last_ops_addresses = ring  # type: ignore[assignment]
        res: Dict[str, Any] = {'status': None, 'fault': None, 'next_ip': None}
        try:
            t = fjm_run._run_featured(st.reader, io, stats, h, False)
            res['status'] = int(t.termination_cause)
        except FlipJumpRuntimeMemoryException as e:
            res['status'], res['fault'] = pyspec.MEMERR, e.memory_address
        except pyengine.StopAfterK as s:
            res['status'], res['next_ip'] = pyspec.CONTINUE, s.next_ip
        except KeyboardInterrupt:
            res['status'] = 'quit'
        res.update(ops=stats.op_counter, ips=list(ring.items), out=list(io.out), reads=io.reads, mem=st.reader.memory)

        # ---------- reference: pyspec op by op + the debugger model
        smem, sio = pyengine.SpecMem(st), pyengine.SpecIO(st)
        next_action = debugger_model(script)
        lines = list(script)
        nb: Any = nb0
        active = True
        ip: Any = 0
        opc: Any = n0
        started: List[Any] = []
        exp_pauses: List[Dict[str, Any]] = []
        status: Any = pyspec.CONTINUE
        extra: Any = None
        while len(started) < K:
            started.append(ip)
            if active:
                hit = mkb(z3.Select(B, lift(ip)[0]))
                due = (nb == opc) if nb is not None else False
                if bool(due) or bool(hit):
                    exp_pauses.append({'ip': ip, 'opc': opc, 'outs': len(sio.out), 'reads': sio.reads,
                                       'present': smem.present, 'val': smem.val})
                    act, n = next_action(lines)
                    if act == 'step':
                        nb = opc + 1
                    elif act == 'skip':
                        nb = opc + n
                    elif act == 'continue':
                        nb = None
                    elif act == 'continue_all':
                        nb, active = None, False
                    else:
                        status = 'quit'
                        break
            status, extra, counted = pyspec.step(w, smem, sio, ip)
            if counted:
                opc = opc + 1
            if status != pyspec.CONTINUE:
                break
            ip = extra
        spec = {'status': status, 'fault': extra if status == pyspec.MEMERR else None, 'ip': ip, 'ops': opc, 'out': sio.out,
                'reads': sio.reads, 'started': started, 'mem': smem}
        # ---------- obligations
        items: List[Tuple[Any, str]] = []
        add = lambda c, l: items.append((c, f'{tag}: {l}'))  # noqa: E731
        add(z3.BoolVal(len(pauses) == len(exp_pauses)), f'number of pauses ({len(pauses)} vs {len(exp_pauses)} expected)')
        k = z3.BitVec('kq', W)
        in_space = z3.And(k >= 0, k < (1 << w))
        for i, (a, b) in enumerate(zip(pauses, exp_pauses)):
            add(pyengine.same(a['ip'], b['ip']), f'pause {i} is before the op at the expected address')
            add(pyengine.same(a['opc'], b['opc']), f'pause {i} reports the number of ops executed so far')
            add(z3.BoolVal(a['outs'] == b['outs'] and a['reads'] == b['reads']), f'pause {i} happens before any IO of the op')
            al = z3.If(z3.Select(a['present'], k), z3.Select(a['val'], k), z3.BitVecVal(0, w))
            bl = z3.If(z3.Select(b['present'], k), z3.Select(b['val'], k), z3.BitVecVal(0, w))
            add(z3.Implies(z3.And(in_space, st.valid0(k)), al == bl), f'pause {i} happens before the op changed memory')
        if res['status'] == 'quit' or spec['status'] == 'quit':
            add(z3.BoolVal(res['status'] == spec['status']), 'quit stops the run as a keyboard-interrupt (and nothing else does)')
        img = pyengine.image_reader(st, list(st.reader.memory.keys) + list(smem.keys))
        E.prove_all(items, detail=img)
        if res['status'] != 'quit' and spec['status'] != 'quit':
            # the statement's observables: output, termination cause (+ fault address), op count; the final memory is compared
            # as well unless the run ended in a memory error (the pause reads the op's words before executing it, so a fault
            # is met before the flip - visible only in memory the program can no longer use)
            pyengine.compare(E, st, res, spec, tag + ' vs undebugged semantics',
                             with_memory=not (res['status'] == pyspec.MEMERR and spec['status'] == pyspec.MEMERR))
        else:
            E.prove_all([(pyengine.same(res['ops'], spec['ops']), f'{tag}: op counter at quit'),
                         (z3.BoolVal(len(res['out']) == len(spec['out'])), f'{tag}: outputs at quit')], detail=img)
        E.witness(f'loop:pauses={len(exp_pauses)}', True)
        if nb0 is not None:
            E.witness('loop:pause-by-count', to_z3(nb0) == to_z3(n0))
        E.witness('loop:pause-by-breakpoint', z3.Select(B, z3.BitVecVal(0, W)))
        E.witness(f"loop:status={spec['status']}", True)

    return _run(E, body, tag, {'script': script})


def unit_config(cfg: Tuple[str, int]) -> Dict[str, Any]:
    """apply_debug_action / should_break with symbolic counters"""
    common.use_repo()
    what, w = cfg
    from flipjump.interpreter.debugging.breakpoints import BreakpointHandler, BreakpointHandlerUnnecessary
    W = 80
    E = Engine(W)
    tag = f'unit/{what}'

    def body() -> None:
        log: List[Any] = []
        install_stubs([], log)
        B = z3.Array('B', z3.BitVecSort(W), z3.BoolSort())
        h = BreakpointHandler(SymBreakpoints(B), NoLabels(), {})    # type: ignore[arg-type]
        opc = sym_int('OPC', 0, 1 << 62)
        n = sym_int('N', 1, 1 << 62)
        ip = sym_int('IP', 0, (1 << 64) - 1)
        if what == 'should_break':
            nb_present = sym_int('HASNB', 0, 1)
            nbv = sym_int('NB', 0, 1 << 63)
            h.next_break = nbv if bool(nb_present == 1) else None
            got = h.should_break(ip, opc)
            want = z3.Or(z3.Select(B, to_z3(ip)), to_z3(nbv) == to_z3(opc)) if h.next_break is not None else z3.Select(B, to_z3(ip))
            E.prove(to_z3_bool(got) == want, f'{tag}: pause iff the address is a breakpoint or the op count is due')
            E.witness('unit:should_break', True)
            return
        raised = None
        try:
            h.apply_debug_action((what, n if what == 'skip' else 0), opc)
        except BreakpointHandlerUnnecessary:
            raised = 'unnecessary'
        except KeyboardInterrupt:
            raised = 'keyboard-interrupt'
        want_raise = {'continue_all': 'unnecessary', 'exit': 'keyboard-interrupt'}.get(what)
        items = [(z3.BoolVal(raised == want_raise), f'{tag}: raises {want_raise}')]
        if what == 'step':
            items.append((pyengine.same(h.next_break, opc + 1), f'{tag}: next pause after exactly one op'))
        elif what == 'skip':
            items.append((pyengine.same(h.next_break, opc + n), f'{tag}: next pause after exactly N ops'))
        elif what in ('continue', 'continue_all'):
            items.append((z3.BoolVal(h.next_break is None), f'{tag}: no pending count-pause'))
        E.prove_all(items)
        E.witness(f'unit:{what}', True)

    return _run(E, body, tag, {'unit': what})


READ_TARGETS = [('word', '{a}'), ('word-hex', '{ah}'), ('bit2', ':b2:{a}'), ('hex3-idx1', ':h3:1:{a}'), ('byte2', ':B2:{a}'),
                ('flipword', ':f:1:{a}'), ('jumpword', ':j:2:{a}'), ('bit-default-len', ':b:{a}'), ('label', 'lbl'),
                ('unaligned', '{a1}'), ('bad', 'no such thing')]


def read_config(cfg: Tuple[int, str, int]) -> Dict[str, Any]:
    """read commands: the value shown is the true current value; memory is not altered"""
    common.use_repo()
    w, tname, base_words = cfg
    from flipjump.interpreter.debugging.breakpoints import BreakpointHandler
    W = 2 * w + 16
    E = Engine(W, timeout_ms=120_000)
    tag = f'read/w{w}/{tname}/at{base_words}w'
    tmpl = dict(READ_TARGETS)[tname]
    a = base_words * w
    target = tmpl.format(a=a, ah=hex(a), a1=a + 1)
    bl = w.bit_length()

    def body() -> None:
        st = pyengine.PyState(w, W, 1, 0)
        log: List[Any] = []
        install_stubs([], log)
        h = BreakpointHandler({}, {a: 'lbl', 0: 'zero'}, {'lbl': a})
        h.handle_read_memory(target, st.reader)      # any exception escaping here fails the path
        mem = st.reader.memory
        k = z3.BitVec('kq', W)
        in_space = z3.And(k >= 0, k < (1 << w))
        alpha0 = z3.If(z3.Select(st.P0, k), z3.Select(st.M0, k), z3.BitVecVal(0, w))
        items: List[Tuple[Any, str]] = [
            (z3.Implies(z3.And(in_space, st.valid0(k)), mem.alpha(k) == alpha0), f'{tag}: the read does not alter any in-segment word'),
            (z3.Implies(in_space, z3.Or(z3.Select(mem.present, k), st.in_zero_range(k)) == st.valid0(k)),
             f'{tag}: the read does not make an out-of-segment word valid'),
            (z3.BoolVal(len(log) == 1), f'{tag}: exactly one message is shown')]
        title, msg = log[0] if log else ('', '')
        word = lambda wa: z3.ZeroExt(W - w, alpha0_at(st, wa, w))  # noqa: E731
        if title == 'Read Memory':
            wa = {'word': base_words, 'word-hex': base_words, 'label': base_words, 'flipword': base_words + 2,
                  'jumpword': base_words + 2 * 2 + 1}.get(tname)
            toks = shown_values(msg, W)
            ok = wa is not None and len(toks) >= 1
            items.append((z3.BoolVal(ok), f'{tag}: a word read shows a value'))
            if ok:
                items.append((toks[0] == word(wa), f'{tag}: the value shown is the current word at the addressed location'))
            E.witness('read:word', True)
        elif title == 'Reading FlipJump Variable':
            typ, length, idx = {'bit2': ('b', 2, 0), 'hex3-idx1': ('h', 3, 1), 'byte2': ('B', 2, 0), 'bit-default-len': ('b', 1, 0)}[tname]
            bits = {'b': 1, 'h': 4, 'B': 8}[typ]
            first = base_words + 2 * length * idx
            val = z3.BitVecVal(0, W)
            for i in range(length):
                jw = word(first + 2 * i + 1)
                val = val | ((z3.LShR(jw, bl) & ((1 << bits) - 1)) << (bits * i))
            toks = shown_values(msg, W)
            items.append((z3.BoolVal(len(toks) >= 1), f'{tag}: a variable read shows a value'))
            if toks:
                items.append((toks[0] == val, f'{tag}: the value shown is the variable decoded at dbit with stride 2w'))
            E.witness('read:variable', True)
        else:
            E.witness(f'read:{title or "none"}', True)
        keys = list(mem.keys) + [z3.BitVecVal(base_words + d_, W) for d_ in range(0, 16)]
        E.prove_all(items, detail=pyengine.image_reader(st, keys))

    return _run(E, body, tag, {'read_target': target})


def shown_values(msg: str, W: int) -> List[Any]:
    """the value(s) printed after '= ' in a read message: a token's term, or a literal number"""
    import re
    m = re.search('= (\u27e6\\d+\u27e7|\\d+)', msg)
    if not m:
        return []
    t = m.group(1)
    return tokens_in(t) if t.startswith('\u27e6') else [z3.BitVecVal(int(t), W)]


def alpha0_at(st: Any, wa: int, w: int) -> Any:
    k = z3.BitVecVal(wa, st.W)
    return z3.If(z3.Select(st.P0, k), z3.Select(st.M0, k), z3.BitVecVal(0, w))


def _run(E: Engine, body: Any, tag: str, sample: Dict[str, Any]) -> Dict[str, Any]:
    t0 = time.time()
    incon: List[str] = []
    try:
        E.explore(body)
    except Inconclusive as e:
        incon.append(f'{tag}: {e}')
    except Exception as e:  # noqa: BLE001 - a foreign exception escaping the debugger on some path is a failed obligation
        import traceback
        E.failed.append({'label': f'{tag}: unexpected {type(e).__name__}: {str(e)[:100]} @ {traceback.extract_tb(e.__traceback__)[-1][2]}',
                         'model': E.model_values(E.solver.model()) if E.model is not None else {}, 'detail': None, 'decisions': []})
    viol = []
    seen = set()
    for f in E.failed:
        sig = f['label'].replace(tag, tag.split('/')[0] + '/' + '/'.join(tag.split('/')[2:]))
        if sig in seen:
            continue
        seen.add(sig)
        viol.append({'label': f['label'], 'signature': sig, 'replay': common.write_replay('C15', tag + f['label'][-30:], {
            'tag': tag, 'label': f['label'], 'all_failing': f.get('all_failing'), 'model': f['model'], 'image': f.get('detail')}),
            'detail': {'failing': f.get('all_failing') or f['label'], 'image': f.get('detail')}})
    return {'configs': 1, **E.stats(), 'samples': [dict(sample, config=tag, paths=E.paths)], 'violations': viol, 'inconclusive': incon,
            'harnesses': {'/'.join(tag.split('/')[:2]): {'paths': E.paths, 'queries': sum(E.q.values()), 'wall_s': round(time.time() - t0, 2)}}}


def _dispatch(item: Tuple[str, Any]) -> Dict[str, Any]:
    part = {'loop': loop_config, 'unit': unit_config, 'read': read_config}[item[0]](item[1])
    return confirm(part, item)


def confirm(part: Dict[str, Any], item: Tuple[str, Any]) -> Dict[str, Any]:
    """loop-level counterexamples are replayed on the real code (plain ints, real dict, scripted stdin)"""
    if item[0] == 'unit':
        return part           # plain arithmetic on two counters: the model values are the replay
    if item[0] == 'read':
        real_r = []
        for v in part['violations']:
            img = (v['detail'] or {}).get('image')
            rep = replay_read(item[1], img) if img else {'differs': False, 'why': 'no image (the path raised before the comparison)'}
            part['replayed'] = part.get('replayed', 0) + 1
            if rep.get('differs'):
                v['detail'] = rep
                real_r.append(v)
            else:
                part['inconclusive'].append(f"{v['label']}: counterexample did not reproduce on the real code: {rep}")
        part['violations'] = real_r
        return part
    real = []
    for v in part['violations']:
        img = (v['detail'] or {}).get('image')
        rep = replay_loop(item[1], img, v) if img else {'differs': False, 'why': 'no image in the model'}
        part['replayed'] = part.get('replayed', 0) + 1
        if rep.get('differs'):
            v['detail'] = rep
            real.append(v)
        else:
            part['inconclusive'].append(f"{v['label']}: counterexample did not reproduce on the real code: {rep}")
    part['violations'] = real
    return part


def replay_loop(cfg: Tuple[int, str, str, int], img: Dict[str, Any], v: Dict[str, Any]) -> Dict[str, Any]:
    """debugged run vs undebugged run of the same image on the real featured loop (breakpoint at every address the model
    marks): outputs / cause / op count must agree, unless the script quits"""
    common.use_repo()
    w, mode, sname, nb_kind = cfg
    from flipjump.fjm.fjm_reader import Reader, GarbageHandling
    from flipjump.interpreter import fjm_run
    from flipjump.interpreter.debugging import breakpoints as bp
    from flipjump.interpreter.debugging.breakpoints import BreakpointHandler
    from flipjump.utils.classes import RunStatistics
    from flipjump.utils.exceptions import FlipJumpRuntimeMemoryException, IOReadOnEOF
    script = list(dict(SCRIPTS)[sname])
    K = 1 if mode == 'first' else 2
    words = {int(k): x for k, x in img['words'].items()}

    def run(debug: bool) -> Dict[str, Any]:
        r = Reader.__new__(Reader)
        r.garbage_handling, r.memory_width = GarbageHandling.Stop, w
        r.memory = dict(words)
        r.zeros_boundaries = [tuple(z) for z in img['zero_ranges']]
        r.memory_segments = []
        lines = list(script)
        bp.ask_for_command = lambda prompt: lines.pop(0) if lines else 'c'   # type: ignore[attr-defined]
        bp.show_message = lambda body_message, title_message: None          # type: ignore[attr-defined]
        bp.print = lambda *a, **k: None                                     # type: ignore[attr-defined]
        fjm_run.print = lambda *a, **k: None                                # type: ignore[attr-defined]
        bp.__dict__.pop('hex', None)
        from flipjump.fjm import fjm_reader
        fjm_reader.__dict__.pop('hex', None)

        class IO:
            def __init__(self) -> None:
                self.out: List[bool] = []
                self.reads = 0

            def write_bit(self, b: bool) -> None:
                self.out.append(bool(b))

            def read_bit(self) -> bool:
                i = self.reads
                self.reads += 1
                if i >= len(img['inputs']) or not img['inputs'][i][0]:
                    raise IOReadOnEOF('eof')
                return img['inputs'][i][1]
        io = IO()
        stats = RunStatistics(w, None)
        ring = pyengine.Ring(K)
        stats.last_ops_addresses = ring  # type: ignore[assignment]

        class AllBreak(dict):
            def __contains__(self, k: object) -> bool:
                return True

            def __getitem__(self, k: object) -> None:
                return None
        h = BreakpointHandler(AllBreak(), {}, {}) if debug else None
        out: Dict[str, Any] = {}
        try:
            t = fjm_run._run_featured(r, io, stats, h, False)
            out['status'] = int(t.termination_cause)
        except FlipJumpRuntimeMemoryException as e:
            out['status'], out['fault'] = pyspec.MEMERR, e.memory_address
        except pyengine.StopAfterK as s:
            out['status'], out['next_ip'] = pyspec.CONTINUE, s.next_ip
        except KeyboardInterrupt:
            out['status'] = 'quit'
        out.update(ops=stats.op_counter, out=io.out, reads=io.reads)
        return out
    plain, dbg = run(False), run(True)
    differs = dbg['status'] != 'quit' and plain != dbg
    return {'differs': differs, 'undebugged': plain, 'debugged(break everywhere)': dbg, 'script': script, 'image': img}


def replay_read(cfg: Tuple[int, str, int], img: Dict[str, Any]) -> Dict[str, Any]:
    """the read command on a concrete Reader: numbers in the message vs an independent decode; memory before/after"""
    common.use_repo()
    import re
    w, tname, base_words = cfg
    from flipjump.fjm.fjm_reader import Reader, GarbageHandling
    from flipjump.fjm import fjm_reader
    from flipjump.interpreter.debugging import breakpoints as bp
    fjm_reader.__dict__.pop('hex', None)
    bp.__dict__.pop('hex', None)
    log: List[Any] = []
    bp.show_message = lambda body_message, title_message: log.append((title_message, body_message))   # type: ignore[attr-defined]
    a = base_words * w
    target = dict(READ_TARGETS)[tname].format(a=a, ah=hex(a), a1=a + 1)
    words = {int(k): x for k, x in img['words'].items()}
    r = Reader.__new__(Reader)
    r.garbage_handling, r.memory_width = GarbageHandling.Stop, w
    r.memory = dict(words)
    r.zeros_boundaries = [tuple(z) for z in img['zero_ranges']]
    r.memory_segments = []
    valid = lambda wa: wa in words or any(x <= wa < y for x, y in r.zeros_boundaries)  # noqa: E731
    h = bp.BreakpointHandler({}, {a: 'lbl', 0: 'zero'}, {'lbl': a})
    try:
        h.handle_read_memory(target, r)
    except Exception as e:  # noqa: BLE001
        return {'differs': True, 'why': f'read command raised {type(e).__name__}: {e}', 'target': target, 'image': img}
    changed = {k: (words.get(k), v) for k, v in r.memory.items() if (words.get(k, 0) != v) or (k not in words and not valid(k))}
    title, msg = log[0] if log else ('', '')
    shown = int(re.search(r'= (\d+)', msg).group(1)) if re.search(r'= (\d+)', msg) else None
    getw = lambda wa: words.get(wa, 0)  # noqa: E731
    want = None
    if title == 'Read Memory':
        wa = {'word': base_words, 'word-hex': base_words, 'label': base_words, 'flipword': base_words + 2,
              'jumpword': base_words + 5}.get(tname)
        want = getw(wa) if wa is not None else None
    elif title == 'Reading FlipJump Variable':
        typ, length, idx = {'bit2': ('b', 2, 0), 'hex3-idx1': ('h', 3, 1), 'byte2': ('B', 2, 0), 'bit-default-len': ('b', 1, 0)}[tname]
        bits = {'b': 1, 'h': 4, 'B': 8}[typ]
        first = base_words + 2 * length * idx
        want = sum((((getw(first + 2 * i + 1)) >> w.bit_length()) & ((1 << bits) - 1)) << (bits * i) for i in range(length))
    differs = bool(changed) or len(log) != 1 or (want is not None and shown != want)
    return {'differs': differs, 'target': target, 'message_title': title, 'shown': shown, 'want': want, 'memory_changed': changed,
            'image': img}


def replay(path: str) -> int:
    case = json.loads(open(path).read())
    tag = case['tag'].split('/')
    if tag[0] != 'loop' or not case.get('image'):
        print(json.dumps(case, indent=1, default=str))
        return 1
    cfg = (int(tag[1][1:]), tag[2], tag[3], int(tag[4][2:]))
    rep = replay_loop(cfg, case['image'], case)
    print(json.dumps(rep, indent=1, default=str))
    return 1 if rep['differs'] else 0


def run(report: Report, tier: str, only: Optional[str] = None) -> None:
    from flipjump.interpreter import fjm_run
    from flipjump.interpreter.debugging import breakpoints as bp
    B = bp.BreakpointHandler
    report.encode(fjm_run._run_featured, B.should_break, bp.handle_breakpoint, B.query_user_for_debug_action, B.apply_debug_action,
                  B.get_breakpoint_message_body, B.get_address_str, B.handle_read_memory, bp.show_memory_address,
                  bp.handle_read_f_j, bp.calculate_variable_value)
    report.stub(*STUBS)
    quick = tier == 'quick'
    items: List[Tuple[str, Any]] = []
    widths = (8, 64) if quick else (8, 16, 32, 64)
    key = ('step', 'skip3', 'continue', 'continue-all', 'quit', 'step-step', 'skip1-then-continue', 'read-then-continue')
    for w in widths:
        for sname, _ in SCRIPTS:
            for nb_kind in (0, 1):
                if quick and w != 8 and sname not in key:
                    continue
                items.append(('loop', (w, 'first', sname, nb_kind)))
                if sname in key and (not quick or (w == 8 and nb_kind == 1 and sname in ('step', 'quit'))
                                     or (w == 64 and nb_kind == 1 and sname == 'step')):
                    items.append(('loop', (w, 'tramp', sname, nb_kind)))
    for what in ('step', 'skip', 'continue', 'continue_all', 'exit', 'should_break'):
        items.append(('unit', (what, 64)))
    for w in ((16, 64) if quick else (8, 16, 32, 64)):
        for tname, _ in READ_TARGETS:
            for base in ((0, 4) if quick else (0, 2, 4)):
                if w == 8 and tname in ('hex3-idx1',):
                    continue
                items.append(('read', (w, tname, base)))
    if only:
        items = [it for it in items if only in f'{it[0]}/{it[1]}']
    report.bounds.update({'loop': 'K=1 from ip 0 with a fully symbolic state, K=2 with the C01 trampoline (op 1 at an arbitrary ip); the op '
                                  'counter at start (<= 2^40), the pending next-break (absent or <= 2^41) and the breakpoint predicate are '
                                  'symbolic; command scripts: ' + ', '.join(s for s, _ in SCRIPTS),
                          'unit': 'apply_debug_action / should_break with symbolic op counter, N (<= 2^62) and ip',
                          'reads': [t for t, _ in READ_TARGETS]})
    report.outside += ['the terminal (input()) itself', 'label pretty-printing', 'breakpoint handler construction from files (C16)',
                       'command scripts other than the listed ones; skip counts come from the script text (their arithmetic is symbolic '
                       'in the unit harness)']
    report.assumptions += ['pyspec', 'the 15-line debugger command model in fjv/checks/c15.py', 'z3 5.1.0', 'pysym proxies']
    report.require_witnesses('loop:pauses=0', 'loop:pauses=1', 'loop:pauses=2', 'loop:pause-by-count', 'loop:pause-by-breakpoint',
                             'loop:status=quit', 'loop:status=10', 'loop:status=5', 'unit:step', 'unit:skip', 'unit:should_break',
                             'read:word', 'read:variable')
    from fjv.checks.c01 import prove_lemmas
    prove_lemmas(report)
    common.run_pool(_dispatch, items, report, chunksize=2)
