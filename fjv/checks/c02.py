"""C02 - the assembled image equals the denotation of the macro-free source (and C16a: the label table is exact).

The whole real pipeline (parser, preprocessor, labels_resolve, Writer, then the Reader on the written bytes) runs on
statement skeletons over the primitive language whose operands are symbolic: op words stay symbolic to the end, the
operands that drive the layout (pad alignment, reserve size, segment address, the bits of a wflip value) are decided by
solver-enumerated forks, so that on every path the layout is concrete and the words are still symbolic.  The oracle is an
independent reference layouter + a walk of every wflip chain in the produced image.
"""
from __future__ import annotations

import itertools
import json
import shutil
import time
from pathlib import Path
from typing import Any, Dict, List, Optional, Tuple

import z3

from fjv import asmsym, common
from fjv.common import Report, Inconclusive
from fjv.pysym import Engine, int_of, sym_int, to_z3, is_sym

KINDS = ['fj', 'fjn', 'wf2', 'wf3', 'pad', 'res', 'seg']
WF_TARGET_WORDS = 200        # wflip target word address (outside every segment: the assembler does not care)
WF_RETURN_WORDS = 300        # explicit return address of 'wf3' (in words)


def build(skel: Tuple[str, ...], w: int) -> Tuple[str, Dict[str, Tuple[int, int]], List[Dict[str, Any]]]:
    """-> (source text, symbolic constants with ranges, statement descriptors)"""
    lines: List[str] = []
    consts: Dict[str, Tuple[int, int]] = {}
    stmts: List[Dict[str, Any]] = []
    nseg = 0

    def c(lo: int, hi: int) -> str:
        name = f'P{len(consts)}'
        consts[name] = (lo, hi)
        return name
    word_hi = (1 << w) - 1
    for i, k in enumerate(skel):
        lab = f'L{i}'
        st: Dict[str, Any] = {'kind': k, 'label': lab}
        if k == 'fj':
            st['f'], st['j'] = c(0, word_hi), c(0, word_hi)
            lines.append(f"{lab}: {st['f']};{st['j']}")
        elif k == 'fjn':
            st['f'] = c(0, word_hi)
            lines.append(f"{lab}: {st['f']};")
        elif k in ('wf2', 'wf3'):
            st['bits'] = [c(0, 1), c(0, 1), c(0, 1)]
            val = f"{st['bits'][0]} + 2*{st['bits'][1]} + ({st['bits'][2]} << (w-1))"
            lines.append(f"{lab}: wflip {WF_TARGET_WORDS}*w, {val}" + (f", {WF_RETURN_WORDS}*w" if k == 'wf3' else ''))
        elif k == 'pad':
            st['n'] = c(1, 4)
            lines.append(f"{lab}:\npad {st['n']}")
        elif k == 'res':
            st['n'] = c(0, 2)
            lines.append(f"{lab}:\nreserve 2*{st['n']}*w")
        elif k == 'seg':
            st['n'] = c(0, 1)
            st['base'] = 24 + 12 * nseg
            nseg += 1
            lines.append(f"segment ({st['base']} + 2*{st['n']})*w\n{lab}:")
        stmts.append(st)
    # tail: one op per label, jumping to it (pins every label's value into the image)
    for i in range(len(skel)):
        lines.append(f';L{i}')
    return '\n'.join(lines) + '\n', consts, stmts


class Layout:
    """the reference layouter (independent of the assembler): addresses in bits"""

    def __init__(self, w: int):
        self.w = w
        self.addr = 0
        self.seg_first = 0
        self.words: Dict[int, Any] = {}          # word address -> expected word (term or int)
        self.labels: Dict[str, int] = {}
        self.reserved: List[Tuple[int, int]] = []  # word ranges that must read 0
        self.pad_holes: List[int] = []           # op addresses (bits) emitted by pad
        self.closed: List[Dict[str, Any]] = []   # closed segments: first, stmt_end, pad_holes
        self.wflips: List[Dict[str, Any]] = []
        self.problems: List[str] = []

    def op(self, f: Any, j: Any) -> None:
        wa = self.addr // self.w
        self.words[wa], self.words[wa + 1] = f, j
        self.addr += 2 * self.w

    def close(self) -> None:
        self.closed.append({'first': self.seg_first, 'stmt_end': self.addr, 'pad_holes': list(self.pad_holes)})
        self.pad_holes = []


def reference(stmts: List[Dict[str, Any]], vals: Dict[str, Any], w: int) -> Layout:
    lay = Layout(w)
    dw = 2 * w
    for st in stmts:
        k = st['kind']
        if k == 'seg':
            lay.close()
            lay.addr = lay.seg_first = (st['base'] + 2 * int_of(vals[st['n']])) * w
            lay.labels[st['label']] = lay.addr
            continue
        lay.labels[st['label']] = lay.addr
        if k == 'fj':
            lay.op(vals[st['f']], vals[st['j']])
        elif k == 'fjn':
            lay.op(vals[st['f']], lay.addr + dw)
        elif k in ('wf2', 'wf3'):
            bits = [int_of(vals[b]) for b in st['bits']]
            flips = [WF_TARGET_WORDS * w + p for p, b in zip((0, 1, w - 1), bits) if b]
            ret = WF_RETURN_WORDS * w if k == 'wf3' else lay.addr + dw
            lay.wflips.append({'at': lay.addr, 'flips': flips, 'ret': ret, 'segment': len(lay.closed)})
            lay.addr += dw
        elif k == 'pad':
            n = int_of(vals[st['n']])
            if lay.addr % dw:
                lay.problems.append('pad at an address that is not op-aligned')
            while (lay.addr // dw) % n:
                lay.pad_holes.append(lay.addr)
                lay.addr += dw
        elif k == 'res':
            bits = 2 * int_of(vals[st['n']]) * w
            lay.reserved.append((lay.addr // w, (lay.addr + bits) // w))
            # the assembler closes the data part here and continues right after the reserved range (same logical segment)
            lay.closed.append({'first': lay.seg_first, 'stmt_end': lay.addr, 'pad_holes': list(lay.pad_holes), 'reserve': True,
                               'extent_end': lay.addr + bits})
            lay.pad_holes = []
            lay.addr += bits
            lay.seg_first = lay.addr
    for i in range(len(stmts)):
        lay.op(0, lay.labels[f'L{i}'])
    lay.close()
    # impossible layouts
    spans = []
    for c in lay.closed:
        if c['stmt_end'] > (1 << w):
            lay.problems.append('a segment reaches beyond the 2^w-bit address space')
    return lay


def one(cfg: Tuple[Tuple[str, ...], int, int]) -> Dict[str, Any]:
    common.use_repo()
    skel, w, version = cfg
    from flipjump.utils.exceptions import FlipJumpException
    W = 96
    E = Engine(W, timeout_ms=120_000, max_paths=20000)
    tag = f"{'-'.join(skel)}/w{w}/v{version}"
    d = common.scratch_dir('c02')
    text, consts, stmts = build(skel, w)
    src = d / f'p{abs(hash(tag)) % 10**9}.fj'
    src.write_text(text)
    outcomes: Dict[str, int] = {}
    dw = 2 * w

    def body() -> None:
        vals = {k: sym_int(k, lo, hi) for k, (lo, hi) in consts.items()}
        for st in stmts:        # the operands that drive the layout: enumerated by the solver up front (the words stay symbolic)
            for name in ([st['n']] if 'n' in st else []) + st.get('bits', []):
                vals[name] = int_of(vals[name])
        res = asmsym.assemble([('f1', src)], w, version, vals)
        lay = reference(stmts, vals, w)          # forks on the layout operands exactly like the assembler had to
        if not res.ok:
            kind = res.exc_kind()
            outcomes[kind] = outcomes.get(kind, 0) + 1
            E.witness('c02:rejected', True)
            if kind != 'library-specific':
                E.prove(z3.BoolVal(False), f'{tag}: assembly failed with {kind}: {str(res.exc)[:80]}')
            return
        outcomes['ok'] = outcomes.get('ok', 0) + 1
        E.witness('c02:assembled', True)
        rd = asmsym.read_back(res)
        mem = rd.memory
        zb = rd.zeros_boundaries

        view = mem.concrete_view()
        if view is None:
            raise Inconclusive(f'{tag}: a memory key stayed symbolic although the layout operands are concrete')
        zranges = [(int_of(a), int_of(b)) for a, b in zb]

        def word(wa: int) -> Tuple[Any, Any]:
            if wa in view:
                return z3.BoolVal(True), view[wa]
            if any(a <= wa < b for a, b in zranges):
                return z3.BoolVal(True), z3.BitVecVal(0, W)
            return z3.BoolVal(False), z3.BitVecVal(0, W)

        def cword(wa: int) -> Optional[int]:
            p, v = word(wa)
            v = z3.simplify(v)
            if z3.is_true(p) and z3.is_bv_value(v):
                return v.as_long()
            return None
        items: List[Tuple[Any, str]] = []
        # (i) statement words
        for wa, expect in lay.words.items():
            p, v = word(wa)
            items.append((z3.And(p, v == to_z3(expect)), f'{tag}: word at {wa}w is the value its expression evaluates to'))
        # (ii) reserved ranges read zero
        for a, b in lay.reserved:
            for wa in range(a, b):
                p, v = word(wa)
                items.append((z3.And(p, v == 0), f'{tag}: reserved word {wa}w is zero and inside a segment'))
        # (iii) the label table (C16)
        for name, addr in lay.labels.items():
            got = (res.labels or {}).get(name)
            items.append((z3.BoolVal(got is not None and not is_sym(got) and got == addr),
                          f'{tag}: debug label {name} = address of the statement it precedes'))
        # (iv) wflip chains: walk the produced image
        stmt_words = set(lay.words)
        # logical segments: parts split by `reserve` share one wflip area, behind the last part
        groups: List[List[Dict[str, Any]]] = [[]]
        for c in lay.closed:
            groups[-1].append(c)
            if not c.get('reserve'):
                groups.append([])
        all_holes = {h for c in lay.closed for h in c['pad_holes']}
        for wf in lay.wflips:
            at, flips, ret = wf['at'], sorted(wf['flips']), wf['ret']
            grp = next(g for g in groups if g and g[0]['first'] <= at < max(g[-1]['stmt_end'], at + 1) and
                       any(c['first'] <= at < max(c['stmt_end'], c['first'] + 1) or c['first'] <= at <= c['stmt_end'] for c in g))
            area_start = grp[-1]['stmt_end']
            holes = {h for c in grp for h in c['pad_holes']}
            n_ops = max(1, len(flips))
            ip, seen_flips, ok, why = at, [], True, ''
            aux: List[int] = []
            for step in range(n_ops):
                f, j = cword(ip // w), cword(ip // w + 1)
                if f is None or j is None:
                    ok, why = False, f'chain op at {ip} is not concrete/in a segment'
                    break
                if ip != at:
                    aux.append(ip)
                if flips:
                    seen_flips.append(f)
                elif f != 0:
                    ok, why = False, f'wflip by 0 flips {f}'
                ip = j
            if ok and ip != ret:
                ok, why = False, f'after {n_ops} ops the chain is at {ip}, not at its return address {ret}'
            if ok and sorted(seen_flips) != flips:
                ok, why = False, f'flips {sorted(seen_flips)} != {flips}'
            for a in aux:
                # an auxiliary op lives in a pad hole of its segment or in the wflip area behind the segment's last statement
                # (a chain may continue into an equal-suffix chain of an earlier segment: sharing is allowed)
                inside_reserved = any(x <= a // w + d_ < y for x, y in lay.reserved for d_ in (0, 1))
                on_statement = (a // w) in stmt_words or (a // w + 1) in stmt_words
                in_some_area = a in all_holes or any(a >= g[-1]['stmt_end'] for g in groups if g)
                if ok and (inside_reserved or on_statement or not in_some_area):
                    ok, why = False, f'auxiliary op at {a} overlaps a user statement / reserved space'
            items.append((z3.BoolVal(ok), f'{tag}: wflip at {at}: {why or "flips exactly the set bits, each once, and returns"}'))
        # (v) accepted => the reference layout is possible
        items.append((z3.BoolVal(not lay.problems), f'{tag}: accepted although the layout is impossible: {lay.problems[:1]}'))
        # (vi) segments placed where requested
        starts = sorted(int_of(s.segment_start) for s in rd.memory_segments)
        want_starts = sorted({c['first'] // w for c in lay.closed if c.get('extent_end', c['stmt_end']) > c['first']})
        items.append((z3.BoolVal(set(want_starts) <= set(starts) or not want_starts),
                      f'{tag}: segments start where requested (got {starts}, want {want_starts})'))
        E.prove_all(items)
        if lay.reserved and any(b > a for a, b in lay.reserved):
            E.witness('c02:reserve-nonempty', True)
        if any(c['pad_holes'] for c in lay.closed):
            E.witness('c02:pad-holes', True)
        if any(len(wf['flips']) >= 2 for wf in lay.wflips):
            E.witness('c02:wflip-chain', True)

    t0 = time.time()
    incon: List[str] = []
    try:
        E.explore(body)
    except Inconclusive as e:
        incon.append(f'{tag}: {e}')
    viol, replayed, seen = [], 0, set()
    for f in E.failed:
        key = ' '.join(f['label'].split(': ', 1)[1].split()[:6])
        if key in seen:
            continue
        seen.add(key)
        replayed += 1
        case = {'skeleton': list(skel), 'w': w, 'version': version, 'model': f['model'], 'label': f['label'],
                'all_failing': f.get('all_failing')}
        rep = replay_case(case)
        if rep['differs']:
            viol.append({'label': f['label'], 'signature': f"{'-'.join(skel)}:{rep.get('what', key)[:60]}",
                         'replay': common.write_replay('C02', tag + key[:20], case), 'detail': rep})
        else:
            incon.append(f"{f['label']}: counterexample did not reproduce: {rep}")
    try:
        src.unlink()
    except OSError:
        pass
    return {'configs': 1, **E.stats(), 'samples': [{'skeleton': list(skel), 'w': w, 'version': version, 'source': text,
                                                    'outcomes': outcomes}],
            'violations': viol, 'inconclusive': incon, 'replayed': replayed,
            'harnesses': {f'len{len(skel)}/w{w}/v{version}': {'paths': E.paths, 'queries': sum(E.q.values()),
                                                              'wall_s': round(time.time() - t0, 2)}}}


def replay_case(case: Dict[str, Any]) -> Dict[str, Any]:
    """numbers substituted into the text; real assemble + Reader; the same reference on plain ints"""
    common.use_repo()
    asmsym.uninstall()
    import flipjump
    from flipjump.fjm.fjm_consts import FJMVersion
    from flipjump.fjm.fjm_reader import Reader
    from flipjump.utils.exceptions import FlipJumpException
    from flipjump.utils.functions import load_debugging_labels
    skel, w, version, m = tuple(case['skeleton']), case['w'], case['version'], case['model']
    text, consts, stmts = build(skel, w)
    vals = {k: int(m.get(k, lo)) for k, (lo, hi) in consts.items()}
    d = common.scratch_dir('c02r')
    try:
        src, out, dbg = d / 'r.fj', d / 'r.fjm', d / 'r.fjd'
        src.write_text(''.join(f'{k} = {v}\n' for k, v in vals.items()) + text)
        lay = reference(stmts, vals, w)
        try:
            flipjump.assemble([src], out, memory_width=w, use_stl=False, fjm_version=FJMVersion(version), print_time=False,
                              debugging_file_path=dbg)
        except FlipJumpException as e:
            generic = 'Unknown exception during assembling' in str(e)
            return {'differs': generic, 'what': f'generic failure: {e.__cause__!r}' if generic else f'rejected: {str(e)[:100]}'}
        rd = Reader(out)
        labels = load_debugging_labels(dbg)
        bad: List[str] = []
        getw = lambda wa: rd.memory.get(wa, 0 if any(a <= wa < b for a, b in rd.zeros_boundaries) else None)  # noqa: E731
        for wa, expect in lay.words.items():
            if getw(wa) != expect:
                bad.append(f'word {wa}w = {getw(wa)} != {expect}')
        for a, b in lay.reserved:
            for wa in range(a, b):
                if getw(wa) != 0:
                    bad.append(f'reserved word {wa}w = {getw(wa)}')
        for name, addr in lay.labels.items():
            if labels.get(name) != addr:
                bad.append(f'label {name} = {labels.get(name)} != {addr}')
        stmt_words = set(lay.words)
        for wf in lay.wflips:
            ip, seen = wf['at'], []
            for step in range(max(1, len(wf['flips']))):
                f, j = getw(ip // w), getw(ip // w + 1)
                if f is None or j is None:
                    bad.append(f'wflip at {wf["at"]}: chain leaves the segments at {ip}')
                    break
                if ip != wf['at'] and ((ip // w) in stmt_words and not any(ip in c['pad_holes'] for c in lay.closed)):
                    bad.append(f'wflip at {wf["at"]}: auxiliary op at {ip} overwrites a user statement')
                if wf['flips']:
                    seen.append(f)
                ip = j
            else:
                if ip != wf['ret']:
                    bad.append(f'wflip at {wf["at"]}: ends at {ip}, not at its return address {wf["ret"]}')
            if sorted(seen) != sorted(wf['flips']):
                bad.append(f'wflip at {wf["at"]}: flips {sorted(seen)} != {sorted(wf["flips"])}')
        if lay.problems:
            bad.append(f'accepted an impossible layout: {lay.problems[0]}')
        return {'differs': bool(bad), 'what': bad[0] if bad else 'image as specified', 'all': bad[:5], 'values': vals}
    finally:
        shutil.rmtree(d, ignore_errors=True)


def replay(path: str) -> int:
    case = json.loads(open(path).read())
    rep = replay_case(case)
    print(json.dumps(rep, indent=1, default=str))
    return 1 if rep['differs'] else 0


CURATED: List[Tuple[str, ...]] = [
    ('pad', 'fj', 'pad', 'res', 'wf2', 'fj'),          # pad holes must not survive a reserve
    ('fj', 'pad', 'res', 'fj', 'wf3', 'fj'),
    ('fj', 'pad', 'seg', 'fj', 'wf2'),                 # ... nor a new segment
    ('wf2', 'wf2', 'pad', 'wf3', 'wf3'),               # shared chains, different return addresses
    ('wf3', 'fj', 'wf3', 'seg', 'wf3'),                # same return address across segments
    ('fj', 'res', 'res', 'fj', 'wf2'),
    ('seg', 'fj', 'seg', 'fj', 'wf2', 'pad'),
    ('fjn', 'pad', 'wf2', 'wf2', 'fjn'),
    ('pad', 'pad', 'wf2', 'res', 'pad', 'wf2'),
]


def run(report: Report, tier: str, only: Optional[str] = None) -> None:
    from flipjump.assembler import assembler, preprocessor
    from flipjump.fjm.fjm_writer import Writer
    report.encode(preprocessor.resolve_macro_aux, preprocessor.PreprocessorData.insert_label,
                  preprocessor.PreprocessorData.insert_segment, preprocessor.PreprocessorData.insert_reserve,
                  preprocessor.PreprocessorData.align_current_address, assembler.labels_resolve,
                  assembler.BinaryData.insert_wflip_ops, assembler.BinaryData.get_wflip_spot, assembler.BinaryData.insert_padding,
                  assembler.BinaryData.insert_reserve_bits, assembler.BinaryData.insert_new_segment,
                  assembler.BinaryData.close_and_add_segment, assembler.add_segment_to_fjm, assembler.validate_addresses,
                  Writer.add_segment, Writer._update_to_relative_jumps)
    report.stub(*asmsym.STUBS)
    quick = tier == 'quick'
    maxlen = 3 if quick else 4
    skels: List[Tuple[str, ...]] = []
    for n in range(1, min(maxlen, 3) + 1):
        skels += list(itertools.product(KINDS, repeat=n))
    if maxlen >= 4:
        # length 4: without the `f;` statement form (it differs from `f;j` only in the default jump, covered at length <= 3)
        skels += list(itertools.product([k_ for k_ in KINDS if k_ != 'fjn'], repeat=4))
    skels += CURATED
    combos = [(16, 1), (64, 3)] if quick else [(8, 0), (16, 1), (32, 2), (64, 3), (16, 2)]
    cfgs = []
    for sk in skels:
        for ci, (w, v) in enumerate(combos):
            if len(sk) == 4 and sk not in CURATED and ci != sum(map(ord, ''.join(sk))) % len(combos):
                continue            # length 4: one width/version pair per sequence (rotating over the five pairs)
            cfgs.append((sk, w, v))
    if quick:
        # all sequences up to length 2 at both combos; length 3 + curated alternate between the two combos (deterministic)
        cfgs = [(sk, w, v) for i, (sk, w, v) in enumerate(cfgs) if len(sk) <= 2 or sk in CURATED or
                (sum(map(ord, ''.join(sk))) % 2 == (0 if w == 16 else 1))]
    if only:
        cfgs = [c for c in cfgs if only in f"{'-'.join(c[0])}/w{c[1]}/v{c[2]}"]
    report.bounds.update({'skeletons': f'every sequence of length <= {min(maxlen, 3)} over {KINDS}' + (' + every sequence of length 4 without fjn (one width/version pair each)' if maxlen >= 4 else '') + f' + {len(CURATED)} curated longer ones; every '
                                       'statement carries a label and the program ends with one op per label jumping to it',
                          'symbolic': 'op words (any value in [0,2^w)), pad alignment [1,4], reserve size {0,2,4} words, segment address '
                                      '(2 candidates per segment), 3 bits of every wflip value (bit 0, 1, w-1); the layout operands are '
                                      'enumerated by solver forks, the words stay symbolic to the final comparison',
                          'width_version': combos})
    report.outside += ['macros and rep (C03)', 'expressions beyond a single symbolic leaf per operand (C12)', 'wflip targets/returns other '
                       'than the two fixed far addresses', 'skeletons longer than the bound']
    report.assumptions += ['the reference layouter in fjv/checks/c02.py', 'z3 5.1.0', 'pysym proxies', 'stubs of fjv/fjmio.py']
    report.require_witnesses('c02:assembled', 'c02:rejected', 'c02:reserve-nonempty', 'c02:pad-holes', 'c02:wflip-chain')
    common.run_pool(one, cfgs, report, chunksize=4)
    shutil.rmtree(common.scratch_dir('c02'), ignore_errors=True)
