"""C16 - the debug label table is exact.

(a) label table: the C02 harness (real pipeline on symbolic programs over the primitive language) - every label equals the
    address of the statement it precedes, and pins the same address into the image (the tail ops `;L_i`).
(b) breakpoint resolution: the real get_breakpoints / get_breakpoint_handler on a label table with symbolic addresses
    (possibly equal, possibly 0): the resulting breakpoint addresses are exactly the addresses of the matching labels plus
    the given addresses.
(c) save/load round trip of the table: lzma + json are C-level libraries - validated on concrete tables, not solver-decided.
Macro-local label naming is covered with the macro programs of C03.
"""
from __future__ import annotations

import itertools
import json
import shutil
import time
from pathlib import Path
from typing import Any, Dict, List, Optional, Set, Tuple

import z3

from fjv import common
from fjv.common import Report, Inconclusive
from fjv.pysym import Engine, int_of, sym_int, to_z3

NAMES = ['main', 'lib.add', 'f1:l3:lib.add---loop', 'f1:l3:lib.add---f1:l9:rep0:inner---loop']
EXACT_SETS: List[Optional[Set[str]]] = [None, set(), {'main'}, {'lib.add', 'nosuch'}, {'f1:l3:lib.add---loop', 'main'}]
CONTAINS_SETS: List[Optional[Set[str]]] = [None, {'loop'}, {'lib'}, {'zzz'}, {'add', 'main'}, {'---'}]


def bp_config(cfg: Tuple[int, int, int]) -> Dict[str, Any]:
    common.use_repo()
    ei, ci, with_addr = cfg
    from flipjump.interpreter.debugging import breakpoints as bp
    W = 40
    E = Engine(W)
    exact, contains = EXACT_SETS[ei], CONTAINS_SETS[ci]
    tag = f'breakpoints/exact{ei}/contains{ci}/addr{with_addr}'

    def body() -> None:
        bp.print = lambda *a, **k: None     # type: ignore[attr-defined]
        # symbolic addresses from a small domain (dict keys get concretised): 0 and equal addresses are included
        addrs = {n: int_of(sym_int(f'A{i}', 0, 2)) * 128 for i, n in enumerate(NAMES)}
        extra = {int_of(sym_int('X', 0, 3)) * 128} if with_addr else None
        table = dict(addrs)
        got = bp.get_breakpoints(extra, exact, contains, table)
        want: Set[int] = set(extra or ())
        for n, a in addrs.items():
            if exact and n in exact:
                want.add(a)
            if contains and any(c in n for c in contains):
                want.add(a)
        items = [(z3.BoolVal(set(got) == want), f'{tag}: breakpoint addresses are exactly those of the matching labels '
                                                 f'(got {sorted(got)}, want {sorted(want)}, table {addrs})')]
        for a, name in got.items():
            if name is not None:
                items.append((z3.BoolVal(addrs.get(name) == a), f'{tag}: the label attached to a breakpoint lives at that address'))
        # the handler built from the same table agrees (address_to_label maps every label address to one of its labels)
        E.prove_all(items)
        E.witness('bp:label-at-0', z3.BoolVal(any(a == 0 for a in addrs.values()) and bool(exact or contains)))
        E.witness('bp:two-labels-one-address', z3.BoolVal(len(set(addrs.values())) < len(addrs)))

    t0 = time.time()
    incon: List[str] = []
    try:
        E.explore(body)
    except Inconclusive as e:
        incon.append(f'{tag}: {e}')
    viol = []
    for f in E.failed[:1]:
        case = {'part': 'breakpoints', 'cfg': list(cfg), 'model': f['model'], 'label': f['label']}
        rep = replay_case(case)
        if rep['differs']:
            viol.append({'label': f['label'], 'signature': f"breakpoints:{rep['what']}", 'replay': common.write_replay('C16', tag, case),
                         'detail': rep})
        else:
            incon.append(f"{f['label']}: did not reproduce: {rep}")
    return {'configs': 1, **E.stats(), 'samples': [{'config': tag, 'exact': sorted(exact) if exact else exact,
                                                    'contains': sorted(contains) if contains else contains}],
            'violations': viol, 'inconclusive': incon, 'replayed': len(E.failed[:1]),
            'harnesses': {'breakpoints': {'paths': E.paths, 'queries': sum(E.q.values()), 'wall_s': round(time.time() - t0, 2)}}}


def replay_case(case: Dict[str, Any]) -> Dict[str, Any]:
    common.use_repo()
    from flipjump.interpreter.debugging import breakpoints as bp
    bp.__dict__.pop('print', None)
    if case['part'] != 'breakpoints':
        from fjv.checks import c02
        return c02.replay_case(case)
    ei, ci, with_addr = case['cfg']
    m = case['model']
    exact, contains = EXACT_SETS[ei], CONTAINS_SETS[ci]
    addrs = {n: int(m.get(f'A{i}', 0)) * 128 for i, n in enumerate(NAMES)}
    extra = {int(m.get('X', 0)) * 128} if with_addr else None
    import io
    import contextlib
    with contextlib.redirect_stdout(io.StringIO()):
        got = bp.get_breakpoints(extra, exact, contains, dict(addrs))
    want: Set[int] = set(extra or ())
    for n, a in addrs.items():
        if (exact and n in exact) or (contains and any(c in n for c in contains)):
            want.add(a)
    missing, surplus = sorted(want - set(got)), sorted(set(got) - want)
    what = ('missing breakpoint at address 0' if 0 in missing else 'missing breakpoints' if missing else
            'surplus breakpoints' if surplus else 'as specified')
    return {'differs': bool(missing or surplus), 'what': what, 'got': sorted(got), 'want': sorted(want), 'table': addrs,
            'exact': sorted(exact) if exact else None, 'contains': sorted(contains) if contains else None}


def replay(path: str) -> int:
    case = json.loads(open(path).read())
    if 'part' not in case:
        case['part'] = 'labels'
    rep = replay_case(case)
    print(json.dumps(rep, indent=1, default=str))
    return 1 if rep['differs'] else 0


def roundtrip_validation(report: Report) -> None:
    """(c) save -> load of label tables (concrete; lzma/json are library code)"""
    common.use_repo()
    from fjv import asmsym
    asmsym.uninstall()
    from flipjump.utils.functions import save_debugging_labels, load_debugging_labels
    d = common.scratch_dir('c16')
    try:
        tables = [{}, {'a': 0}, {n: i * 64 for i, n in enumerate(NAMES)}, {'x' * 300: (1 << 64) - 64, 'y---z:rep3:w': 1 << 40},
                  {f'l{i}': i for i in range(2000)}, {'unié': 5}]
        for t in tables:
            p = d / 'l.fjd'
            save_debugging_labels(p, t)
            back = load_debugging_labels(p)
            report.validation_runs += 1
            if back != t:
                path = common.write_replay('C16', 'roundtrip', {'part': 'roundtrip', 'table_size': len(t)})
                report.violations.append({'signature': 'label table save/load round trip', 'replay': path, 'detail': {'size': len(t)}})
    finally:
        shutil.rmtree(d, ignore_errors=True)


def _dispatch(item: Tuple[str, Any]) -> Dict[str, Any]:
    if item[0] == 'bp':
        return bp_config(item[1])
    from fjv.checks import c02
    part = c02.one(item[1])
    for v in part['violations']:
        v['replay'] = v['replay'].replace('/C02_', '/C02_')   # replayable with ./check C02 --replay as well
    return part


def run(report: Report, tier: str, only: Optional[str] = None) -> None:
    from fjv.checks import c02
    from fjv import asmsym
    from flipjump.assembler import preprocessor
    from flipjump.interpreter.debugging import breakpoints as bp
    from flipjump.utils import functions
    report.encode(preprocessor.PreprocessorData.insert_label, preprocessor.PreprocessorData.insert_macro_start_labels_if_their_address_not_used,
                  bp.get_breakpoints, bp.update_breakpoints_from_breakpoint_set, bp.update_breakpoints_from_breakpoint_contains_set,
                  bp.update_breakpoints_from_addresses_set, functions.save_debugging_labels, functions.load_debugging_labels)
    report.stub(*asmsym.STUBS)
    quick = tier == 'quick'
    items: List[Tuple[str, Any]] = []
    for ei in range(len(EXACT_SETS)):
        for ci in range(len(CONTAINS_SETS)):
            for wa in (0, 1):
                items.append(('bp', (ei, ci, wa)))
    skels = [s for n in (1, 2) for s in itertools.product(c02.KINDS, repeat=n)] + (c02.CURATED if not quick else c02.CURATED[:3])
    for sk in skels:
        items.append(('labels', (sk, 32, 2)))
    if only:
        items = [it for it in items if only in f'{it[0]}/{it[1]}']
    report.bounds.update({'label_table': 'C02 harness on every statement sequence of length <= 2 + curated ones at w=32, version 2: every '
                                         'statement labelled, layout operands enumerated by the solver',
                          'breakpoints': f'{len(NAMES)} label names with addresses symbolic over {{0,128,256}} (equal addresses and address 0 '
                                         f'included), {len(EXACT_SETS)} exact-name sets x {len(CONTAINS_SETS)} substring sets x with/without '
                                         'an address breakpoint'})
    report.outside += ['the lzma+json save/load round trip (C libraries): validated on 6 concrete tables only',
                       'macro-local label naming (see C03)', 'label names beyond the listed ones']
    report.assumptions += ['z3 5.1.0', 'pysym proxies', 'the reference layouter of C02']
    report.require_witnesses('bp:label-at-0', 'bp:two-labels-one-address', 'c02:assembled')
    common.run_pool(_dispatch, items, report, chunksize=2)
    roundtrip_validation(report)
