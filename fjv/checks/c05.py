"""C05 - bit library macros compute their documented function for every operand (fjsx, see fjv/stlcheck.py)."""
from __future__ import annotations

import json
from typing import Any, Dict, List, Optional, Tuple

import z3

from fjv import common, fjsx, stlcheck
from fjv.common import Report
from fjv.stlcheck import Spec

NQ = [{'n': 1}, {'n': 3}, {'n': 4}]
NT = [{'n': 8}]
W3 = (16, 64)
I = 'stl.startup'


def B(name: str, call: str, vars_: Dict[str, str], post: Any, doc: str, file: str, params: Any = None, thorough: Any = None, **kw: Any) -> Spec:
    return Spec(name, call, vars_, 'bit', post, doc, file, params if params is not None else NQ, thorough if thorough is not None else NT,
                init=I, widths=W3, **kw)


def ones(n: int) -> Any:
    return z3.BitVecVal((1 << n) - 1, n)


SPECS: List[Spec] = [
    B('bit.zero', 'bit.zero {n}, a', {'a': 'n'}, lambda V, P: {'a': z3.BitVecVal(0, P['n'])}, 'x[:n] = 0', 'bit/memory.fj'),
    B('bit.one', 'bit.one {n}, a', {'a': 'n'}, lambda V, P: {'a': ones(P['n'])}, 'x[:n] = (1<<n) - 1', 'bit/memory.fj'),
    B('bit.mov', 'bit.mov {n}, a, b', {'a': 'n', 'b': 'n'}, lambda V, P: {'a': V['b']}, 'dst[:n] = src[:n]', 'bit/memory.fj'),
    B('bit.mov(same)', 'bit.mov {n}, a, a', {'a': 'n'}, lambda V, P: {}, 'works if dst==src', 'bit/memory.fj', [{'n': 2}], []),
    B('bit.swap', 'bit.swap {n}, a, b', {'a': 'n', 'b': 'n'}, lambda V, P: {'a': V['b'], 'b': V['a']}, 'a[:n], b[:n] = b[:n], a[:n]', 'bit/memory.fj'),
    B('bit.xor', 'bit.xor {n}, a, b', {'a': 'n', 'b': 'n'}, lambda V, P: {'a': V['a'] ^ V['b']}, 'dst[:n] ^= src[:n]', 'bit/logics.fj'),
    B('bit.xor_zero', 'bit.xor_zero {n}, a, b', {'a': 'n', 'b': 'n'}, lambda V, P: {'a': V['a'] ^ V['b'], 'b': z3.BitVecVal(0, P['n'])},
      'src[:n] = 0', 'bit/logics.fj'),
    B('bit.or', 'bit.or {n}, a, b', {'a': 'n', 'b': 'n'}, lambda V, P: {'a': V['a'] | V['b']}, 'dst[:n] |= src[:n]', 'bit/logics.fj'),
    B('bit.and', 'bit.and {n}, a, b', {'a': 'n', 'b': 'n'}, lambda V, P: {'a': V['a'] & V['b']}, 'dst[:n] &= src[:n]', 'bit/logics.fj'),
    B('bit.not', 'bit.not {n}, a', {'a': 'n'}, lambda V, P: {'a': ~V['a']}, 'dst[:n] ^= (1<<n)-1', 'bit/logics.fj'),
    B('bit.inc', 'bit.inc {n}, a', {'a': 'n'}, lambda V, P: {'a': V['a'] + 1}, 'x[:n]++', 'bit/math.fj', [{'n': 1}, {'n': 2}, {'n': 4}], [{'n': 8}]),
    B('bit.dec', 'bit.dec {n}, a', {'a': 'n'}, lambda V, P: {'a': V['a'] - 1}, 'x[:n]--', 'bit/math.fj', [{'n': 1}, {'n': 2}, {'n': 4}], [{'n': 8}]),
    B('bit.neg', 'bit.neg {n}, a', {'a': 'n'}, lambda V, P: {'a': -V['a']}, 'x[:n] = -x[:n]', 'bit/math.fj', [{'n': 1}, {'n': 3}], [{'n': 8}]),
    B('bit.add', 'bit.add {n}, a, b', {'a': 'n', 'b': 'n'}, lambda V, P: {'a': V['a'] + V['b']}, 'dst[:n] += src[:n]', 'bit/math.fj',
      [{'n': 1}, {'n': 2}], []),
    B('bit.sub', 'bit.sub {n}, a, b', {'a': 'n', 'b': 'n'}, lambda V, P: {'a': V['a'] - V['b']}, 'dst[:n] -= src[:n]', 'bit/math.fj',
      [{'n': 1}, {'n': 2}], []),
    B('bit.shr', 'bit.shr {n}, a', {'a': 'n'}, lambda V, P: {'a': z3.LShR(V['a'], 1)}, 'x[:n] >>= 1', 'bit/shifts.fj'),
    B('bit.shl', 'bit.shl {n}, a', {'a': 'n'}, lambda V, P: {'a': V['a'] << 1}, 'x[:n] <<= 1', 'bit/shifts.fj'),
    B('bit.shr(times)', 'bit.shr {n}, {t}, a', {'a': 'n'}, lambda V, P: {'a': z3.LShR(V['a'], P['t'])}, 'x[:n] >>= times', 'bit/shifts.fj',
      [{'n': 4, 't': 2}, {'n': 3, 't': 3}, {'n': 3, 't': 0}], [{'n': 8, 't': 5}]),
    B('bit.shl(times)', 'bit.shl {n}, {t}, a', {'a': 'n'}, lambda V, P: {'a': V['a'] << P['t']}, 'x[:n] <<= times', 'bit/shifts.fj',
      [{'n': 4, 't': 2}, {'n': 3, 't': 3}], [{'n': 8, 't': 5}]),
    B('bit.shra', 'bit.shra {n}, {t}, a', {'a': 'n'}, lambda V, P: {'a': V['a'] >> P['t']}, 'arithmetic shift right', 'bit/shifts.fj',
      [{'n': 4, 't': 2}, {'n': 4, 't': 1}], [{'n': 8, 't': 5}]),
    B('bit.ror', 'bit.ror {n}, a', {'a': 'n'}, lambda V, P: {'a': z3.RotateRight(V['a'], 1)}, 'rotate x[:n] right by 1-bit', 'bit/shifts.fj',
      [{'n': 2}, {'n': 4}], [{'n': 8}]),
    B('bit.rol', 'bit.rol {n}, a', {'a': 'n'}, lambda V, P: {'a': z3.RotateLeft(V['a'], 1)}, 'rotate x[:n] left by 1-bit', 'bit/shifts.fj',
      [{'n': 2}, {'n': 4}], [{'n': 8}]),
    B('bit.if', 'bit.if {n}, a, X_l0, X_l1', {'a': 'n'}, lambda V, P: {}, 'if x[:n] == 0 jump to l0, else jump to l1', 'bit/cond_jumps.fj',
      exits=['X_l0', 'X_l1'], exit=lambda V, P: z3.If(V['a'] == 0, 0, 1)),
    B('bit.if1', 'bit.if1 {n}, a, X_l1', {'a': 'n'}, lambda V, P: {}, '!= 0 jump to l1', 'bit/cond_jumps.fj', exits=['X_l1'],
      exit=lambda V, P: z3.If(V['a'] != 0, 0, 1)),
    B('bit.if0', 'bit.if0 {n}, a, X_l0', {'a': 'n'}, lambda V, P: {}, 'if x[:n] == 0 jump to l0', 'bit/cond_jumps.fj', exits=['X_l0'],
      exit=lambda V, P: z3.If(V['a'] == 0, 0, 1)),
    B('bit.cmp', 'bit.cmp {n}, a, b, X_lt, X_eq, X_gt', {'a': 'n', 'b': 'n'}, lambda V, P: {}, 'a[:n] < b[:n]:  lt', 'bit/cond_jumps.fj',
      [{'n': 1}, {'n': 3}], [{'n': 8}], exits=['X_lt', 'X_eq', 'X_gt'],
      exit=lambda V, P: z3.If(z3.ULT(V['a'], V['b']), 0, z3.If(V['a'] == V['b'], 1, 2))),
]


def _one(job: Tuple[int, int, Dict[str, int]]) -> Dict[str, Any]:
    i, w, p = job
    return stlcheck.check_macro(SPECS[i], w, p)


def replay(path: str) -> int:
    case = json.loads(open(path).read())
    sp = next(s for s in SPECS if s.name == case['macro'])
    rep = stlcheck.replay_macro(sp, case['w'], case['params'], case['model'], case['phase'])
    print(json.dumps(rep, indent=1, default=str))
    return 1 if rep['differs'] else 0


def run(report: Report, tier: str, only: Optional[str] = None) -> None:
    from fjv.checks.c04 import jobs
    report.functions += [{'name': f'{sp.name} ({sp.call})', 'file': 'flipjump/stl/' + sp.file, 'doc': sp.doc} for sp in SPECS]
    report.stub('none: the program is assembled by the real assembler and executed by the symbolic FlipJump machine fjsx')
    report.bounds.update({'macros': [sp.name for sp in SPECS], 'vector_lengths': 'n <= 4 in quick, 8 in thorough; every operand value symbolic',
                          'widths': 'quick: w in {16, 64}; thorough: w in {16, 32, 64}',
                          're_entry': 'each call site is executed a second time from the state the first execution left, with fresh operands'})
    report.outside += ['bit.mul / mul10 / div / idiv / div10 and their loop variants (not encoded in this revision)', 'vector lengths above the bound']
    report.assumptions += ['the FlipJump machine of fjsx.Machine.step = pyspec (aligned ops only)', 'the spec table transcribed from the doc '
                           'comments (guarded against drift)', 'z3 5.1.0']
    js = jobs(SPECS, tier, only)
    common.run_pool(_one, js, report)
    fjsx.cleanup()
