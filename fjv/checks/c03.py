"""C03 - macro expansion is hygienic inlining.

Programs are described at the level of BINDINGS (which parameter / local label / rep iterator / global label an identifier
occurrence means), never of spellings.  From one such description two texts are produced:
  * the macro program, where every binding gets a spelling from a small pool so that spellings collide across scopes in every
    way the language allows, and
  * its inlining: calls expanded on the binding level (capture is impossible by construction), every expansion's local labels
    fresh, every rep unrolled - a macro-free text.
Both run through the real assembler (asmsym: parser, preprocessor, labels_resolve, Writer; Reader on the written bytes) with
every number in them a shared SYMBOLIC constant and the rep counts symbolic, and the two images are proved equal word by word.
The macro program is also assembled split over two files at a top-level statement boundary.
"""
from __future__ import annotations

import itertools
import json
import shutil
import time
from typing import Any, Dict, Iterator, List, Optional, Tuple

import z3

from fjv import asmsym, common
from fjv.common import Inconclusive, Report
from fjv.pysym import Engine, int_of, sym_int

# ---------------------------------------------------------------------------------------------------------------- descriptions
# expression: ('param', k) | ('local', k) | ('iter', k) | ('glob', name) | ('P', name) | ('num', n) | ('+', e, e) | ('*', e, e)
# statement : ('op', flip|None, jump|None) | ('lab', ('local', k) | ('glob', name)) | ('call', macro, [e...])
#             | ('rep', count-constant-name, ('iter', k), macro, [e...])
# macro     : dict(ns=(...), base=str, params=n, locals=n, iters=n, body=[...])          macro id = key in shape['macros']
# top level : ('def', macro id) | ('code', ns tuple, [statements])        (global labels are declared by ('lab', ('glob', name)))
# globals   : name -> ns tuple (where it is declared)


def P(n: str) -> Tuple[str, str]:
    return ('P', n)


def add(a: Any, b: Any) -> Tuple[str, Any, Any]:
    return ('+', a, b)


def mul(a: Any, b: Any) -> Tuple[str, Any, Any]:
    return ('*', a, b)


p0, p1, p2 = ('param', 0), ('param', 1), ('param', 2)
l0, l1 = ('local', 0), ('local', 1)
it0, it1 = ('iter', 0), ('iter', 1)


def G(n: str) -> Tuple[str, str]:
    return ('glob', n)


SHAPES: Dict[str, Dict[str, Any]] = {
    # depth 2, arguments built from the caller's parameters, locals and a rep iterator; the callee uses its parameters inside
    # compound expressions next to its own local
    'nest2': dict(
        macros={
            'outer': dict(ns=(), base='outer', params=2, locals=1, iters=1, body=[
                ('lab', l0), ('call', 'inner', [add(p1, P('P1')), l0]), ('rep', 'R0', it0, 'inner', [add(p0, mul(it0, P('P3'))), p1]),
                ('op', p0, l0)]),
            'inner': dict(ns=(), base='inner', params=2, locals=1, iters=0, body=[
                ('op', add(p0, P('P4')), p1), ('lab', l0), ('op', None, add(l0, p0)), ('op', add(p1, p0), None)]),
        },
        globals={'g1': (), 'g2': ()},
        top=[('def', 'outer'), ('code', (), [('lab', G('g1')), ('call', 'outer', [G('g1'), add(G('g2'), P('P0'))]), ('lab', G('g2')),
                                              ('op', None, G('g1')), ('call', 'outer', [G('g2'), G('g1')])]), ('def', 'inner')],
        consts={'P0': (0, 7), 'P1': (0, 7), 'P3': (0, 3), 'P4': (0, 7)}, reps={'R0': (0, 2)}),
    # depth 3 with a rep inside a rep; every level has a parameter, a local and an iterator
    'nest3': dict(
        macros={
            'a': dict(ns=(), base='ma', params=1, locals=1, iters=1, body=[
                ('rep', 'R0', it0, 'b', [add(p0, it0), l0]), ('lab', l0), ('op', p0, None)]),
            'b': dict(ns=(), base='mb', params=2, locals=1, iters=1, body=[
                ('lab', l0), ('rep', 'R1', it0, 'c', [add(mul(p0, P('P1')), it0), add(p1, l0), it0])]),
            'c': dict(ns=(), base='mc', params=3, locals=1, iters=0, body=[
                ('op', add(p0, p2), add(p1, P('P2'))), ('lab', l0), ('op', l0, p0)]),
        },
        globals={'g1': ()},
        top=[('def', 'c'), ('def', 'b'), ('def', 'a'), ('code', (), [('call', 'a', [G('g1')]), ('lab', G('g1')), ('call', 'a', [P('P0')])])],
        consts={'P0': (0, 7), 'P1': (0, 3), 'P2': (0, 7)}, reps={'R0': (0, 2), 'R1': (0, 2)}),
    # namespaces: macros and global labels inside ns blocks, full and relative (dotted) names, arity overloading
    'ns': dict(
        macros={
            'o': dict(ns=('N',), base='m', params=1, locals=1, iters=1, body=[
                ('call', 'i2', [p0, l0]), ('lab', l0), ('rep', 'R0', it0, 'i1', [add(G('h'), mul(it0, P('P1')))]), ('op', G('g'), p0)]),
            'i1': dict(ns=('N', 'K'), base='m', params=1, locals=0, iters=0, body=[('op', add(p0, G('g')), G('h'))]),
            'i2': dict(ns=('N', 'K'), base='m', params=2, locals=1, iters=0, body=[
                ('op', add(p0, P('P2')), l0), ('lab', l0), ('call', 'i1', [add(p1, p0)])]),
        },
        globals={'g': (), 'h': ('N',)},
        top=[('def', 'i1'), ('def', 'o'), ('code', (), [('call', 'o', [G('h')]), ('lab', G('g'))]), ('def', 'i2'),
             ('code', ('N',), [('lab', G('h')), ('call', 'i2', [G('g'), G('h')]), ('op', G('h'), None)])],
        consts={'P1': (0, 3), 'P2': (0, 7)}, reps={'R0': (0, 2)}),
    # a rep whose arguments do not mention its iterator: a caller's label spelled like the iterator arrives through a parameter
    'repconst': dict(
        macros={
            'fill': dict(ns=(), base='fill', params=2, locals=0, iters=1, body=[
                ('rep', 'R0', it0, 'put', [p1]), ('op', p0, None), ('rep', 'R1', it0, 'put', [add(p0, P('P1'))])]),
            'put': dict(ns=(), base='put', params=1, locals=0, iters=0, body=[('op', p0, add(p0, P('P2')))]),
        },
        globals={'g1': (), 'g2': ()},
        top=[('def', 'fill'), ('code', (), [('lab', G('g1')), ('call', 'fill', [G('g2'), G('g1')]), ('lab', G('g2')),
                                             ('call', 'fill', [G('g1'), add(G('g2'), P('P0'))])]), ('def', 'put')],
        consts={'P0': (0, 7), 'P1': (0, 7), 'P2': (0, 7)}, reps={'R0': (0, 2), 'R1': (0, 2)}),
    # an extern label declared by a macro, used by the caller and by another macro; parameter swapping (simultaneous substitution)
    'swap': dict(
        macros={
            'mk': dict(ns=(), base='mk', params=1, locals=0, iters=0, body=[('lab', G('e')), ('op', p0, G('e'))]),
            'f': dict(ns=(), base='f', params=2, locals=1, iters=1, body=[
                ('call', 'f3', [p1, p0, l0]), ('rep', 'R0', it0, 'f3', [l0, add(p1, it0), it0]), ('lab', l0), ('op', G('e'), add(p0, P('P1')))]),
            'f3': dict(ns=(), base='f', params=3, locals=1, iters=0, body=[
                ('op', add(p0, mul(p1, P('P2'))), add(l0, p2)), ('lab', l0)]),
        },
        globals={'g1': (), 'g2': (), 'e': ()},
        top=[('def', 'f'), ('code', (), [('call', 'f', [G('g1'), G('g2')]), ('lab', G('g1')), ('call', 'mk', [G('g2')])]), ('def', 'mk'),
             ('def', 'f3'), ('code', (), [('lab', G('g2')), ('call', 'f', [G('g2'), add(G('e'), P('P0'))])])],
        consts={'P0': (0, 7), 'P1': (0, 7), 'P2': (0, 3)}, reps={'R0': (0, 2)}),
}


# ---------------------------------------------------------------------------------------------------------------- spellings
def slots(shape: Dict[str, Any]) -> List[Tuple[str, str, Any]]:
    out: List[Tuple[str, str, Any]] = []
    for mid, m in shape['macros'].items():
        out += [(mid, 'param', k) for k in range(m['params'])] + [(mid, 'local', k) for k in range(m['locals'])]
        out += [(mid, 'iter', k) for k in range(m['iters'])]
    out += [('', 'glob', g) for g in shape['globals']]
    return out


def refs_of(e: Any, acc: List[Any]) -> None:
    if e is None:
        return
    if e[0] in ('+', '*'):
        refs_of(e[1], acc)
        refs_of(e[2], acc)
    else:
        acc.append(e)


def globals_used(m: Dict[str, Any]) -> Tuple[List[str], List[str]]:
    """(globals referenced, globals declared = extern labels) of a macro body"""
    used: List[Any] = []
    decl: List[str] = []
    for st in m['body']:
        if st[0] == 'op':
            refs_of(st[1], used)
            refs_of(st[2], used)
        elif st[0] == 'call':
            for a in st[2]:
                refs_of(a, used)
        elif st[0] == 'rep':
            for a in st[4]:
                refs_of(a, used)
        elif st[0] == 'lab' and st[1][0] == 'glob':
            decl.append(st[1][1])
    return sorted({r[1] for r in used if r[0] == 'glob'}), decl


def glob_ref(shape: Dict[str, Any], sp: Dict[Any, str], g: str, ctx: Tuple[str, ...], rel: bool) -> str:
    """how the global label g is written from namespace ctx (full dotted name, or the relative form when rel)"""
    gns = shape['globals'][g]
    return dotted(gns + (sp[('', 'glob', g)],), ctx, rel)


def dotted(full: Tuple[str, ...], ctx: Tuple[str, ...], rel: bool) -> str:
    if rel and ctx:
        k = 0
        while k < len(ctx) and k < len(full) - 1 and ctx[k] == full[k]:
            k += 1
        if k > 0:
            return '.' * (len(ctx) - k + 1) + '.'.join(full[k:])
    return '.'.join(full)


def legal(shape: Dict[str, Any], sp: Dict[Any, str], rel: bool) -> bool:
    gl = [(shape['globals'][g], sp[('', 'glob', g)]) for g in shape['globals']]
    if len(set(gl)) != len(gl):
        return False
    for mid, m in shape['macros'].items():
        own = [sp[(mid, 'param', k)] for k in range(m['params'])] + [sp[(mid, 'local', k)] for k in range(m['locals'])] + \
              [sp[(mid, 'iter', k)] for k in range(m['iters'])]
        used, decl = globals_used(m)
        names = own + [glob_ref(shape, sp, g, m['ns'], rel) for g in sorted(set(used + decl))]
        if len(set(names)) != len(names):
            return False
        # inside `ns N`, N.x is by definition an alias of the macro's own parameter / local x: a global with that full name cannot
        # be meant from there (language rule, not a capture)
        for g in used + decl:
            full = '.'.join(shape['globals'][g] + (sp[('', 'glob', g)],))
            if m['ns'] and any(full == '.'.join(m['ns'] + (o,)) for o in own):
                return False
            if g in decl and shape['globals'][g] != m['ns']:
                return False
    return True


def spellings(shape: Dict[str, Any], pool: List[str], rel: bool) -> Iterator[Dict[Any, str]]:
    """every legal assignment, up to renaming of the pool: the scopes are independent (names inside one macro are distinct, across
    macros unrestricted); the last macro of the shape (the deepest callee) keeps the first pool names (symmetry of the pool)"""
    per_macro = []
    mids = list(shape['macros'])
    for mid in mids:
        m = shape['macros'][mid]
        own = [(mid, 'param', k) for k in range(m['params'])] + [(mid, 'local', k) for k in range(m['locals'])] + \
              [(mid, 'iter', k) for k in range(m['iters'])]
        if mid == mids[-1]:
            per_macro.append([dict(zip(own, pool[:len(own)]))])
        else:
            per_macro.append([dict(zip(own, perm)) for perm in itertools.permutations(pool, len(own))])
    gs = [('', 'glob', g) for g in shape['globals']]
    per_macro.append([dict(zip(gs, combo)) for combo in itertools.product(pool, repeat=len(gs))])
    for parts in itertools.product(*per_macro):
        sp: Dict[Any, str] = {}
        for part in parts:
            sp.update(part)
        if legal(shape, sp, rel):
            yield sp


# ---------------------------------------------------------------------------------------------------------------- the macro text
def expr_text(shape: Dict[str, Any], sp: Dict[Any, str], mid: str, ctx: Tuple[str, ...], e: Any, rel: bool) -> str:
    k = e[0]
    if k in ('param', 'local', 'iter'):
        return sp[(mid, k, e[1])]
    if k == 'glob':
        return glob_ref(shape, sp, e[1], ctx, rel)
    if k == 'P':
        return e[1]
    if k == 'num':
        return str(e[1])
    return f'({expr_text(shape, sp, mid, ctx, e[1], rel)} {k} {expr_text(shape, sp, mid, ctx, e[2], rel)})'


def stmt_text(shape: Dict[str, Any], sp: Dict[Any, str], mid: str, ctx: Tuple[str, ...], st: Any, rel: bool) -> str:
    def ex(e: Any) -> str:
        return expr_text(shape, sp, mid, ctx, e, rel)

    def mname(callee: str) -> str:
        m = shape['macros'][callee]
        return dotted(m['ns'] + (m['base'],), ctx, rel)
    if st[0] == 'op':
        return f"{ex(st[1]) if st[1] else ''};{ex(st[2]) if st[2] else ''}"
    if st[0] == 'lab':
        return (sp[(mid, 'local', st[1][1])] if st[1][0] == 'local' else sp[('', 'glob', st[1][1])]) + ':'
    if st[0] == 'call':
        return f"{mname(st[1])} {', '.join(ex(a) for a in st[2])}"
    if st[0] == 'rep':
        return f"rep({st[1]}, {sp[(mid, 'iter', st[2][1])]}) {mname(st[3])} {', '.join(ex(a) for a in st[4])}"
    raise ValueError(st)


def top_items(shape: Dict[str, Any], sp: Dict[Any, str], rel: bool) -> List[str]:
    """one text block per top-level statement (a file split may fall between any two)"""
    out = []
    for item in shape['top']:
        if item[0] == 'def':
            m = shape['macros'][item[1]]
            used, decl = globals_used(m)
            head = f"def {m['base']}"
            if m['params']:
                head += ' ' + ', '.join(sp[(item[1], 'param', k)] for k in range(m['params']))
            if m['locals']:
                head += ' @ ' + ', '.join(sp[(item[1], 'local', k)] for k in range(m['locals']))
            if [g for g in used if g not in decl]:
                head += ' < ' + ', '.join(glob_ref(shape, sp, g, m['ns'], rel) for g in used if g not in decl)
            if decl:
                head += ' > ' + ', '.join(sp[('', 'glob', g)] for g in decl)
            body = '\n'.join('    ' + stmt_text(shape, sp, item[1], m['ns'], st, rel) for st in m['body'])
            text = f"{head} {{\n{body}\n}}"
            for n in reversed(m['ns']):
                text = f"ns {n} {{\n{text}\n}}"
            out.append(text)
        else:
            _, ns, sts = item
            text = '\n'.join(stmt_text(shape, sp, '', ns, st, rel) for st in sts)
            for n in reversed(ns):
                text = f"ns {n} {{\n{text}\n}}"
            out.append(text)
    return out


# ---------------------------------------------------------------------------------------------------------------- the inlining
def inline(shape: Dict[str, Any], reps: Dict[str, int]) -> str:
    """binding-level expansion -> macro-free text: labels U<k> (one per expansion of a local), G_<name> for globals"""
    lines: List[str] = []
    fresh = itertools.count()

    def ex(e: Any, env: Dict[Any, str]) -> str:
        k = e[0]
        if k in ('param', 'local', 'iter'):
            return env[e]
        if k == 'glob':
            return f'G_{e[1]}'
        if k == 'P':
            return e[1]
        if k == 'num':
            return str(e[1])
        return f'({ex(e[1], env)} {k} {ex(e[2], env)})'

    def body(sts: List[Any], env: Dict[Any, str]) -> None:
        for st in sts:
            if st[0] == 'op':
                lines.append(f"{ex(st[1], env) if st[1] else ''};{ex(st[2], env) if st[2] else ''}")
            elif st[0] == 'lab':
                lines.append((env[st[1]] if st[1][0] == 'local' else f'G_{st[1][1]}') + ':')
            elif st[0] == 'call':
                expand(st[1], [ex(a, env) for a in st[2]])
            elif st[0] == 'rep':
                for i in range(reps[st[1]]):
                    env2 = dict(env)
                    env2[st[2]] = str(i)
                    expand(st[3], [ex(a, env2) for a in st[4]])

    def expand(mid: str, args: List[str]) -> None:
        m = shape['macros'][mid]
        env: Dict[Any, str] = {('param', k): f'({a})' for k, a in enumerate(args)}
        for k in range(m['locals']):
            env[('local', k)] = f'U{next(fresh)}'
        body(m['body'], env)

    for item in shape['top']:
        if item[0] == 'code':
            body(item[2], {})
    return '\n'.join(lines) + '\n'


# ---------------------------------------------------------------------------------------------------------------- one program
def image(res: Any, W: int) -> Tuple[Dict[int, Any], List[Tuple[int, int]]]:
    rd = asmsym.read_back(res)
    view = rd.memory.concrete_view()
    if view is None:
        raise Inconclusive('a memory key stayed symbolic')
    return view, sorted((int_of(a), int_of(b)) for a, b in rd.zeros_boundaries)


def program_texts(case: Dict[str, Any]) -> Tuple[List[str], Dict[str, Any]]:
    shape = SHAPES[case['shape']]
    sp = {tuple(k): v for k, v in case['spelling']}
    return top_items(shape, sp, case['rel']), shape


def one(case: Dict[str, Any]) -> Dict[str, Any]:
    common.use_repo()
    w = case['w']
    W = 2 * w + 16
    items, shape = program_texts(case)
    tag = case['tag']
    E = Engine(W, timeout_ms=120_000, max_paths=400)
    d = common.scratch_dir('c03')
    key = abs(hash(tag)) % 10 ** 9
    whole = d / f'm{key}.fj'
    whole.write_text('\n'.join(items) + '\n')
    cut = case['split']
    fa, fb = d / f'a{key}.fj', d / f'b{key}.fj'
    fa.write_text('\n'.join(items[:cut]) + '\n')
    fb.write_text('\n'.join(items[cut:]) + '\n')
    flat = d / f'i{key}.fj'
    outcomes: Dict[str, int] = {}

    def body() -> None:
        vals = {k: sym_int(k, lo, hi) for k, (lo, hi) in shape['consts'].items()}
        reps = {}
        for k, (lo, hi) in shape['reps'].items():
            vals[k] = int_of(sym_int(k, lo, hi))        # rep counts: enumerated by the solver (0 included)
            reps[k] = vals[k]
        res = asmsym.assemble([('f1', whole)], w, 1, vals, warning_as_errors=True)
        if not res.ok:
            outcomes['rejected'] = outcomes.get('rejected', 0) + 1
            E.prove(z3.BoolVal(False), f'{tag}: the macro program is rejected: {str(res.exc)[:200]}')
            return
        img, zb = image(res, W)
        flat.write_text(inline(shape, reps))
        res2 = asmsym.assemble([('f1', flat)], w, 1, vals, warning_as_errors=False)
        if not res2.ok:
            raise Inconclusive(f'{tag}: the inlined text does not assemble: {str(res2.exc)[:200]}')
        img2, zb2 = image(res2, W)
        outcomes['compared'] = outcomes.get('compared', 0) + 1
        E.witness('c03:compared', True)
        if sum(reps.values()) == 0:
            E.witness('c03:rep-count-zero', True)
        rtag = ','.join(f'{k}={v}' for k, v in sorted(reps.items()))
        items_: List[Tuple[Any, str]] = [(z3.BoolVal(sorted(img) == sorted(img2) and zb == zb2),
                                          f'{tag} [{rtag}]: same set of words as the inlined program')]
        for wa in sorted(set(img) & set(img2)):
            items_.append((img[wa] == img2[wa], f'{tag} [{rtag}]: word {wa} equals the inlined program\'s'))
        E.prove_all(items_)
        res3 = asmsym.assemble([('f1', fa), ('f2', fb)], w, 1, vals, warning_as_errors=True)
        if not res3.ok:
            E.prove(z3.BoolVal(False), f'{tag}: split over two files at top-level statement {cut} the program is rejected: {str(res3.exc)[:160]}')
            return
        img3, zb3 = image(res3, W)
        items3: List[Tuple[Any, str]] = [(z3.BoolVal(sorted(img) == sorted(img3) and zb == zb3), f'{tag} [{rtag}]: split at {cut}: same set of words')]
        for wa in sorted(set(img) & set(img3)):
            items3.append((img[wa] == img3[wa], f'{tag} [{rtag}]: split at {cut}: word {wa} unchanged'))
        E.prove_all(items3)

    t0 = time.time()
    incon: List[str] = []
    try:
        E.explore(body)
    except Inconclusive as e:
        incon.append(f'{tag}: {e}')
    viol, replayed, seen = [], 0, set()
    for f in E.failed:
        if 'word' in f['label'] and 'w' in seen:
            continue
        seen.add('w' if 'word' in f['label'] else f['label'])
        replayed += 1
        rc = dict(case, model=f['model'], label=f['label'])
        rep = replay_case(rc)
        if rep['differs']:
            viol.append({'label': f['label'], 'signature': f"{case['shape']}:{rep['what'][:60]}", 'replay': common.write_replay('C03', tag, rc), 'detail': rep})
        else:
            incon.append(f"{f['label']}: counterexample did not reproduce: {str(rep)[:300]}")
    for pth in (whole, fa, fb, flat):
        try:
            pth.unlink()
        except OSError:
            pass
    return {'configs': 1, **E.stats(), 'samples': [{'program': tag, 'outcomes': outcomes, 'source': '\n'.join(items)}] if case.get('sample') else [],
            'violations': viol, 'inconclusive': incon, 'replayed': replayed,
            'harnesses': {case['shape']: {'paths': E.paths, 'queries': sum(E.q.values()), 'wall_s': round(time.time() - t0, 2)}}}


def replay_case(case: Dict[str, Any]) -> Dict[str, Any]:
    """real assembler, real files, real Reader: macro program (whole and split) vs its inlining, with the model's numbers"""
    common.use_repo()
    asmsym.uninstall()
    import flipjump
    from flipjump.fjm.fjm_consts import FJMVersion
    from flipjump.fjm.fjm_reader import Reader
    items, shape = program_texts(case)
    model = case.get('model', {})
    vals = {k: int(model.get(k, lo)) for k, (lo, hi) in {**shape['consts'], **shape['reps']}.items()}
    prelude = '\n'.join(f'{k} = {v}' for k, v in sorted(vals.items())) + '\n'
    d = common.scratch_dir('c03r')
    try:
        def build(name: str, files: List[Tuple[str, str]]) -> Any:
            paths = []
            for fn, text in files:
                pth = d / fn
                pth.write_text(text)
                paths.append(pth)
            out = d / f'{name}.fjm'
            flipjump.assemble(paths, out, memory_width=case['w'], use_stl=False, fjm_version=FJMVersion(1), print_time=False, warning_as_errors=False)
            rd = Reader(out)
            return dict(rd.memory), sorted(rd.zeros_boundaries)
        what = []
        try:
            a = build('whole', [('w.fj', prelude + '\n'.join(items) + '\n')])
        except Exception as e:  # noqa: BLE001
            return {'differs': True, 'what': f'the macro program is rejected: {str(e)[:200]}', 'source': '\n'.join(items), 'constants': vals}
        b = build('flat', [('f.fj', prelude + inline(shape, {k: vals[k] for k in shape['reps']}))])
        if a != b:
            bad = sorted(k for k in set(a[0]) | set(b[0]) if a[0].get(k) != b[0].get(k))[:6]
            what.append('image differs from the inlined program at words ' + ', '.join(f'{k}: {a[0].get(k)} vs {b[0].get(k)}' for k in bad))
        cut = case['split']
        try:
            c = build('split', [('a.fj', prelude + '\n'.join(items[:cut]) + '\n'), ('b.fj', '\n'.join(items[cut:]) + '\n')])
            if a != c:
                what.append(f'image changes when the source is split at top-level statement {cut}')
        except Exception as e:  # noqa: BLE001
            what.append(f'split at {cut} is rejected: {str(e)[:160]}')
        return {'differs': bool(what), 'what': '; '.join(what) or 'same image', 'source': '\n'.join(items), 'constants': vals,
                'inlined': inline(shape, {k: vals[k] for k in shape['reps']})}
    finally:
        shutil.rmtree(d, ignore_errors=True)


def replay(path: str) -> int:
    case = json.loads(open(path).read())
    rep = replay_case(case)
    print(json.dumps(rep, indent=1, default=str))
    return 1 if rep['differs'] else 0


# ---------------------------------------------------------------------------------------------------------------- the job list
POOLS = {'quick': ['x', 'y', 'i', 'z', 'v'], 'thorough': ['x', 'y', 'i', 'z', 'v']}       # quick uses the first max(4, needed) names


def cases(tier: str) -> List[Dict[str, Any]]:
    out = []
    for sname, shape in SHAPES.items():
        need = max(m['params'] + m['locals'] + m['iters'] + len(set(sum(globals_used(m), []))) for m in shape['macros'].values())
        pool = POOLS[tier][:max(need, 4 if tier == 'quick' else 5)]
        n = 0
        for rel in (False, True):
            if rel and not any(m['ns'] for m in shape['macros'].values()):
                continue
            for sp in spellings(shape, pool, rel):
                n += 1
                if tier == 'quick' and n % QUICK_STRIDE.get(sname, 1):
                    continue
                nt = len(shape['top'])
                out.append({'shape': sname, 'spelling': [[list(k), v] for k, v in sp.items()], 'rel': rel, 'w': 16 if n % 2 else 64,
                            'split': 1 + n % (nt - 1), 'tag': f"{sname}/{'rel' if rel else 'full'}/" + ''.join(sp.values()), 'sample': n % 97 == 1})
    return out


QUICK_STRIDE: Dict[str, int] = {'nest3': 8, 'swap': 4}       # quick tier: every 8th / 4th spelling of the large shapes


def run(report: Report, tier: str, only: Optional[str] = None) -> None:
    from flipjump.assembler import assembler, fj_parser, preprocessor
    from flipjump.assembler.inner_classes import expr, ops
    report.encode(preprocessor.resolve_macro_aux, preprocessor.get_params_dictionary, preprocessor.get_rep_times, expr.Expr.eval_new,
                  ops.RepCall.rename_iterator, ops.RepCall.calculate_arguments, ops.Label.eval_name, ops.MacroCall.eval_new, ops.FlipJump.eval_new,
                  fj_parser.FJParser, fj_parser.parse_macro_tree, assembler.assemble, assembler.labels_resolve)
    report.stub(*asmsym.STUBS)
    cs = cases(tier)
    if only:
        cs = [c for c in cs if only in c['tag']]
    report.bounds.update({'shapes': {k: {'macros': {mid: f"ns={'.'.join(m['ns']) or '-'} {m['base']}/{m['params']} locals={m['locals']} iters={m['iters']}"
                                                    for mid, m in v['macros'].items()}, 'rep_counts': v['reps'], 'constants': v['consts']}
                                     for k, v in SHAPES.items()},
                          'spellings': f"every assignment of the pool {POOLS[tier]} to all parameters, local labels, rep iterators and global labels "
                                       f"that the language allows (distinct inside one macro scope; collisions across scopes unrestricted)",
                          'quick_tier_stride': QUICK_STRIDE if tier == 'quick' else 'none (exhaustive)',
                          'programs': len(cs), 'widths': [16, 64], 'file_split': 'one top-level boundary per program (rotating over all boundaries)'})
    report.outside += ['macro sets other than the five shapes (call depth > 3, more than 3 parameters)', 'identifier pools larger than listed',
                       'a global label whose full name is N.x referenced from a macro in ns N that has its own parameter/local x (the '
                       'language defines N.x as an alias of the local there)', 'splitting inside a namespace block or a macro definition',
                       'wflip / pad / segment / reserve inside macros (C02 covers their layout)', 'stl macros']
    report.assumptions += ['the binding-level inliner of fjv/checks/c03.py (40 lines) is the meaning of "textually inlining with renaming"',
                           'z3 5.1.0', 'pysym proxies', 'fjmio stubs']
    report.require_witnesses('c03:compared', 'c03:rep-count-zero')
    common.run_pool(one, cs, report, chunksize=8)
    shutil.rmtree(common.scratch_dir('c03'), ignore_errors=True)
