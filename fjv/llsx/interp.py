"""llsx - symbolic execution of the LLVM IR of _fjcore.c over z3 bit-vectors.

Values: python ints (concrete, unsigned, reduced mod 2^bits) or z3 bit-vector terms of the type's width; i1 values are
ints 0/1 or 1-bit vectors; doubles are opaque tokens (only the paused-seconds bookkeeping uses them).
Pointers: 64-bit values  object_id << 40 | byte offset  (NULL = 0).  A pointer loaded from a symbolic cell is resolved
by forking over the feasible object ids.
Memory: every allocation is an object with a (possibly symbolic) byte size and 8-byte cells; a cell store/load at a
symbolic offset goes through a z3 array (or through a functional base memory supplied by the harness).  Every access
carries the obligation  object live, 0 <= offset, offset + size <= object size  (C11); concrete offsets are checked in
python, symbolic ones by a solver query on the spot.
Branching: conditional branches on symbolic values fork through the pysym Engine (decision-prefix re-execution).
"""
from __future__ import annotations

from typing import Any, Callable, Dict, List, Optional, Tuple

import z3

from fjv.common import Inconclusive
from fjv.llsx import ir
from fjv.pysym import Engine, engine

OBJ_SHIFT = 40
OFF_MASK = (1 << OBJ_SHIFT) - 1
M64 = (1 << 64) - 1


class MemoryViolation(Exception):
    """a memory-safety obligation failed on this path (with a model)"""

    def __init__(self, what: str, model: Any = None):
        super().__init__(what)
        self.what, self.model = what, model


class Cut(BaseException):
    """the harness stopped the path on purpose (loop cut)"""

    def __init__(self, why: str, data: Any = None):
        self.why, self.data = why, data


class FP:
    """opaque double"""

    def __repr__(self) -> str:
        return '<fp>'


def is_c(x: Any) -> bool:
    return isinstance(x, int)


def bv(x: Any, bits: int) -> Any:
    return z3.BitVecVal(x, bits) if is_c(x) else x


def simp(x: Any) -> Any:
    if is_c(x) or isinstance(x, FP):
        return x
    x = z3.simplify(x)
    if z3.is_bv_value(x):
        return x.as_long()
    return x


class RangeStore:
    """a bulk store (memset / memcpy of symbolic offset or length): cells lo <= i < lo + n get fn(i)"""

    def __init__(self, lo: Any, n: Any, fn: Callable[[Any], Any]):
        self.lo, self.n, self.fn = bv(lo, 64), bv(n, 64), fn

    def covers(self, idx: Any) -> Any:
        i = bv(idx, 64)
        return z3.And(z3.ULE(self.lo, i), z3.ULT(i - self.lo, self.n))


class Obj:
    """one allocation: 8-byte cells. `base` (optional) gives the initial content of a cell as a function of its index."""

    def __init__(self, oid: int, size: Any, kind: str, name: str, zero: bool = False, base: Optional[Callable[[Any], Any]] = None):
        self.id, self.size, self.kind, self.name = oid, size, kind, name
        self.live = True
        self.conc: Dict[int, Any] = {}            # concrete cell index -> value (valid until a symbolic-index store)
        self.stores: List[Tuple[Any, Any]] = []   # (cell index term/int, value) in program order
        self.zero = zero
        self.base = base
        self.bytes_: Optional[bytes] = None       # constant byte strings (globals)
        self.meta: Dict[str, Any] = {}

    def initial(self, idx: Any) -> Any:
        if self.base is not None:
            return self.base(bv(idx, 64))
        if self.zero:
            return 0
        # uninitialised memory: an arbitrary but fixed value per cell
        arr = z3.Array(f'uninit_{self.name}_{self.id}', z3.BitVecSort(64), z3.BitVecSort(64))
        return z3.Select(arr, bv(idx, 64))

    def read(self, idx: Any) -> Any:
        if 'canon_idx' in self.meta:
            idx = self.meta['canon_idx'](idx)
        if is_c(idx) and idx in self.conc:
            return self.conc[idx]
        if self.meta.get('fork_reads'):
            # KLEE-style: decide aliasing with earlier stores and the validity class of the cell by forking, so that the value
            # is a plain term (the C code branches on exactly these facts right afterwards)
            E = engine()
            for i, x in reversed(self.stores):
                if isinstance(i, RangeStore):
                    if E.branch(i.covers(idx)):
                        return simp(i.fn(bv(idx, 64)))
                    continue
                if (i == idx) if (is_c(i) and is_c(idx)) else E.branch(bv(i, 64) == bv(idx, 64)):
                    return x
            return self.meta['fork_base'](bv(idx, 64))
        v = self.initial(idx)
        for i, x in self.stores:
            if isinstance(i, RangeStore):
                v = z3.If(i.covers(idx), bv(i.fn(bv(idx, 64)), 64), bv(v, 64))
                continue
            if is_c(i) and is_c(idx):
                if i == idx:
                    v = x
                continue
            if isinstance(x, FP) or isinstance(v, FP):
                raise Inconclusive('a double stored next to a symbolic index')
            v = z3.If(bv(i, 64) == bv(idx, 64), bv(x, 64), bv(v, 64))
        v = simp(v)
        if is_c(idx):
            self.conc[idx] = v
        return v

    def read_term(self, idx: Any) -> Any:
        """the value as one if-then-else term (no forking): for obligations over a fresh index"""
        return self.term_over(list(self.stores), idx)

    def term_over(self, stores: List[Tuple[Any, Any]], idx: Any) -> Any:
        """read_term over a snapshot of the store list (memcpy sources are read as of the time of the copy)"""
        v = self.meta['term_base'](bv(idx, 64)) if 'term_base' in self.meta else self.initial(idx)
        for i, x in stores:
            if isinstance(i, RangeStore):
                v = z3.If(i.covers(idx), bv(i.fn(bv(idx, 64)), 64), bv(v, 64))
            else:
                v = z3.If(bv(i, 64) == bv(idx, 64), bv(x, 64), bv(v, 64))
        return v

    def write_range(self, lo: Any, n: Any, fn: Callable[[Any], Any]) -> None:
        self.stores.append((RangeStore(lo, n, fn), None))
        self.conc = {}

    def write(self, idx: Any, v: Any) -> None:
        if 'canon_idx' in self.meta:
            idx = self.meta['canon_idx'](idx)
        if 'on_write' in self.meta:
            self.meta['on_write'](idx, v)
        self.stores.append((idx, v))
        if is_c(idx):
            self.conc[idx] = v
        else:
            self.conc = {}


class Frame:
    def __init__(self, fn: ir.Function):
        self.fn = fn
        self.regs: Dict[str, Any] = {}
        self.visits: Dict[str, int] = {}
        self.allocas: List[Obj] = []


class Machine:
    def __init__(self, module: ir.Module, E: Engine):
        self.m, self.E = module, E
        self.objs: Dict[int, Obj] = {}
        self.next_id = 1
        self.globals: Dict[str, int] = {}        # global name -> pointer
        self.stubs: Dict[str, Callable[..., Any]] = {}
        self.frames: List[Frame] = []
        self.on_block: Optional[Callable[[Frame, str, Optional[str]], None]] = None
        self.steps = 0
        self.max_steps = 200_000
        self.violations: List[Dict[str, Any]] = []
        self.check_memory = True
        self.trace: List[str] = []
        # structured view of pointers formed by indexing an 8-byte-element array with a symbolic index:
        #   term id -> (pointer term (pinned), object id, cell index term)   -- lets loads/stores skip the *8 ... /8 round trip
        self.ptrinfo: Dict[int, Tuple[Any, int, Any]] = {}
        self.wa_log: List[Any] = []        # distinct word-address terms of program-memory cells touched on this path
        self._canon: Dict[int, Tuple[Any, Any]] = {}

    def canon(self, t: Any) -> Any:
        """representative of a word-address term: the first logged term that is provably equal on this path (same value; makes
        the select/validity terms built from it coincide syntactically across code paths)"""
        if is_c(t):
            return t
        hit = self._canon.get(t.get_id())
        if hit is not None:
            return hit[1]
        # the answer must be the same on every re-execution of this decision prefix (a solver timeout must not change the shape
        # of later terms): remember it per (prefix, term) for the whole exploration
        E = self.E
        gkey = (hash(tuple(E.decisions[:E.pos])), E.pos, t.get_id())
        ghit = E.memo.get(gkey)
        if ghit is not None and ghit[0].eq(t):
            res = ghit[1]
        else:
            res = t
            for c in self.wa_log:
                if is_c(c):
                    continue
                if c.eq(t) or E._check(t != c) == 'unsat':
                    res = c
                    break
            E.memo[gkey] = (t, res)
        self._canon[t.get_id()] = (t, res)
        if res is t:
            self.wa_log.append(t)
        return res

    # ------------------------------------------------------------------ objects / pointers
    def alloc(self, size: Any, kind: str, name: str, zero: bool = False, base: Any = None) -> Obj:
        o = Obj(self.next_id, size, kind, name, zero, base)
        self.objs[o.id] = o
        self.next_id += 1
        return o

    @staticmethod
    def ptr(o: Obj, off: Any = 0) -> Any:
        p = o.id << OBJ_SHIFT
        return p + off if is_c(off) else simp(z3.BitVecVal(p, 64) + off)

    def resolve(self, p: Any) -> Tuple[Obj, Any]:
        """pointer -> (object, byte offset); forks over feasible objects when the id is symbolic"""
        if is_c(p):
            oid, off = p >> OBJ_SHIFT, p & OFF_MASK
        else:
            hi = simp(z3.Extract(63, OBJ_SHIFT, p))
            if is_c(hi):
                oid = hi
            else:
                oid = self.E.choose(z3.ZeroExt(self.E.W - 24, hi) if self.E.W > 24 else hi, 'the object a pointer refers to')
                oid &= (1 << 24) - 1
            off = simp(z3.ZeroExt(64 - OBJ_SHIFT, z3.Extract(OBJ_SHIFT - 1, 0, p)))
        if oid == 0:
            raise MemoryViolation('NULL pointer dereference')
        o = self.objs.get(oid)
        if o is None:
            raise MemoryViolation(f'wild pointer (object id {oid})')
        return o, off

    def _check_access(self, o: Obj, off: Any, n: Any, what: str) -> None:
        if not self.check_memory:
            return
        if not o.live:
            raise MemoryViolation(f'{what} of freed object {o.name}')
        if is_c(off) and is_c(o.size) and is_c(n):
            if off + n > o.size:
                raise MemoryViolation(f'{what} of {n} bytes at offset {off} beyond {o.name} (size {o.size})')
            return
        ok = z3.And(z3.ULE(bv(off, 64), bv(off, 64) + n), z3.ULE(bv(off, 64) + n, bv(o.size, 64)))
        self.E.obligations += 1
        r = self.E._check(z3.Not(ok))
        if r == 'unsat':
            self.E.discharged += 1
            return
        if r != 'sat':
            raise Inconclusive(f'solver returned {r} on a bounds obligation')
        m = self.E.last_model()
        raise MemoryViolation(f'{what} of {n if is_c(n) else m.eval(n)} bytes can be outside {o.name}: offset {m.eval(bv(off, 64))} size {m.eval(bv(o.size, 64))}', m)

    def _structured(self, p: Any, n: int, what: str) -> Optional[Tuple[Obj, Any]]:
        """(object, cell index) for a pointer built as array-base + symbolic index (8-byte elements)"""
        if is_c(p) or n != 8:
            return None
        info = self.ptrinfo.get(p.get_id())
        if info is None or not info[0].eq(p):
            return None
        o = self.objs[info[1]]
        cell = info[2]
        if self.check_memory:
            if not o.live:
                raise MemoryViolation(f'{what} of freed object {o.name}')
            ncells = o.meta.get('ncells')
            if ncells is None:
                ncells = o.size // 8 if is_c(o.size) else simp(z3.LShR(o.size, 3))
            self.E.obligations += 1
            r = self.E._check(z3.Not(z3.ULT(bv(cell, 64), bv(ncells, 64))))
            if r == 'sat':
                m = self.E.last_model()
                raise MemoryViolation(f'{what} can be outside {o.name}: element {m.eval(bv(cell, 64))} of {m.eval(bv(ncells, 64))}', m)
            if r != 'unsat':
                raise Inconclusive(f'solver returned {r} on a bounds obligation')
            self.E.discharged += 1
        return o, cell

    def load(self, p: Any, ty: ir.Ty) -> Any:
        n = self.m.types.layout(ty)[0]
        st = self._structured(p, n, 'read')
        if st is not None:
            v = st[0].read(st[1])
            return (v if isinstance(v, FP) else FP()) if ty.kind == 'double' else v
        o, off = self.resolve(p)
        self._check_access(o, off, n, 'read')
        if o.bytes_ is not None:
            if not is_c(off):
                raise Inconclusive('symbolic offset into a constant string')
            return int.from_bytes(o.bytes_[off:off + n], 'little')
        if is_c(off):
            cell, sub = off >> 3, off & 7
        else:
            if n != 8:
                raise Inconclusive('sub-word access at a symbolic offset')
            low = simp(z3.Extract(2, 0, off))
            if not (is_c(low) and low == 0):
                if self.E.possible(z3.Extract(2, 0, off) != 0):
                    raise MemoryViolation('misaligned 8-byte access at a symbolic offset')
            cell, sub = simp(z3.LShR(off, 3)), 0
        v = o.read(cell)
        if ty.kind == 'double':
            return v if isinstance(v, FP) else FP()
        if n == 8:
            return v
        if isinstance(v, FP):
            raise Inconclusive('integer read of a double cell')
        bits = n * 8
        if is_c(v):
            return (v >> (8 * sub)) & ((1 << bits) - 1)
        return simp(z3.Extract(8 * sub + bits - 1, 8 * sub, v))

    def store(self, p: Any, ty: ir.Ty, v: Any) -> None:
        n = self.m.types.layout(ty)[0]
        st = self._structured(p, n, 'write')
        if st is not None:
            st[0].write(st[1], v)
            return
        o, off = self.resolve(p)
        self._check_access(o, off, n, 'write')
        if o.bytes_ is not None:
            raise MemoryViolation('write to a constant')
        if is_c(off):
            cell, sub = off >> 3, off & 7
        else:
            if n != 8:
                raise Inconclusive('sub-word store at a symbolic offset')
            if self.E.possible(z3.Extract(2, 0, off) != 0):
                raise MemoryViolation('misaligned 8-byte store at a symbolic offset')
            cell, sub = simp(z3.LShR(off, 3)), 0
        if n == 8:
            o.write(cell, v)
            return
        if isinstance(v, FP):
            raise Inconclusive('partial store of a double')
        old = o.read(cell)
        bits = n * 8
        mask = ((1 << bits) - 1) << (8 * sub)
        if is_c(old) and is_c(v):
            o.write(cell, (old & ~mask & M64) | ((v << (8 * sub)) & mask))
        else:
            o.write(cell, simp((bv(old, 64) & (~mask & M64)) | (z3.ZeroExt(64 - bits, bv(v, bits)) << (8 * sub))))

    # ------------------------------------------------------------------ globals
    def global_ptr(self, name: str) -> Any:
        if name in self.globals:
            return self.globals[name]
        if name in self.m.functions or name in self.m.declares:
            o = self.alloc(8, 'function', name)
            o.meta['function'] = name
            self.globals[name] = self.ptr(o)
            return self.globals[name]
        g = self.m.globals.get(name)
        if g is None:
            raise ir.IRError(f'unknown global {name}')
        ty, init, external = g
        size = 16 if external else self.m.types.layout(ty)[0]
        o = self.alloc(max(size, 8), 'global', name, zero=True)
        mm = None
        if init.startswith('c"'):
            import re
            raw = init[2:init.rindex('"')]
            o.bytes_ = re.sub(rb'\\([0-9A-Fa-f]{2})', lambda m_: bytes([int(m_.group(1), 16)]), raw.encode('latin-1'))
            o.size = len(o.bytes_)
        self.globals[name] = self.ptr(o)
        return self.globals[name]

    # ------------------------------------------------------------------ operands
    def val(self, fr: Frame, op: ir.Op, ty: ir.Ty) -> Any:
        k = op.kind
        if k == 'reg':
            try:
                return fr.regs[op.a]
            except KeyError:
                raise ir.IRError(f'use of undefined register {op.a} in {fr.fn.name}')
        if k == 'int':
            return op.a
        if k == 'null':
            return 0
        if k == 'global':
            return self.global_ptr(op.a)
        if k == 'undef':
            return 0
        if k == 'fp':
            return FP()
        if k == 'cexpr':
            if op.a == 'getelementptr':
                (pty, pop), *idx = op.c
                return self.gep(op.b, self.val(fr, pop, pty), [(t, self.val(fr, o, t)) for t, o in idx])
            return self.val(fr, op.c[0], op.b[0])
        raise ir.IRError(f'operand kind {k}')

    def gep(self, base_ty: ir.Ty, p: Any, idx: List[Tuple[ir.Ty, Any]]) -> Any:
        T = self.m.types
        off: Any = 0
        cur = base_ty
        for n, (ity, i) in enumerate(idx):
            if not is_c(i) and ity.bits < 64:
                i = z3.SignExt(64 - ity.bits, i)
            elif is_c(i) and ity.bits < 64 and i >> (ity.bits - 1):
                i -= 1 << ity.bits
            elif is_c(i) and i >> 63:
                i -= 1 << 64
            if n == 0:
                sz = T.layout(cur)[0]
                off = off + i * sz if is_c(i) and is_c(off) else bv(off, 64) + bv(i & M64 if is_c(i) else i, 64) * sz
            elif cur.kind == 'struct':
                if not is_c(i):
                    raise ir.IRError('symbolic struct field index')
                off = off + T.layout(cur)[2][i] if is_c(off) else off + T.layout(cur)[2][i]
                cur = T.fields(cur)[i]
            elif cur.kind == 'array':
                sz = T.layout(cur.elem)[0]
                off = off + i * sz if is_c(i) and is_c(off) else bv(off, 64) + bv(i & M64 if is_c(i) else i, 64) * sz
                cur = cur.elem
            else:
                raise ir.IRError(f'gep into {cur!r}')
        if is_c(p) and is_c(off):
            return (p + off) & M64
        r = simp(bv(p, 64) + bv(off & M64 if is_c(off) else off, 64))
        if is_c(p) and not is_c(r) and len(idx) == 1 and T.layout(base_ty)[0] == 8 and not is_c(idx[0][1]) and (p & OFF_MASK) % 8 == 0:
            i0 = idx[0][1]
            i0 = i0 if idx[0][0].bits == 64 else z3.SignExt(64 - idx[0][0].bits, i0)
            self.ptrinfo[r.get_id()] = (r, p >> OBJ_SHIFT, simp(z3.BitVecVal((p & OFF_MASK) // 8, 64) + i0))
        return r

    # ------------------------------------------------------------------ execution
    def call(self, name: str, args: List[Any]) -> Any:
        fn = self.m.functions.get(name)
        if fn is None:
            stub = self.stubs.get(name)
            if stub is None:
                raise ir.IRError(f'no stub for external function {name}')
            return stub(*args)
        if name in self.stubs:                  # a harness may replace an internal function by its contract
            return self.stubs[name](*args)
        fr = Frame(fn)
        for (ty, pname), a in zip(fn.params, args):
            fr.regs[pname] = a
        self.frames.append(fr)
        try:
            return self.run_frame(fr)
        finally:
            self.frames.pop()
            for o in fr.allocas:
                o.live = False

    def run_frame(self, fr: Frame) -> Any:
        E = self.E
        block, prev = fr.fn.order[0], None
        while True:
            fr.visits[block] = fr.visits.get(block, 0) + 1
            if self.on_block is not None:
                self.on_block(fr, block, prev)
            b = fr.fn.blocks[block]
            # phis are evaluated simultaneously on entry
            phis = [i for i in b.instrs if i.op == 'phi']
            if phis:
                newv = {}
                for i in phis:
                    for op, pred in i.args:
                        if pred == prev:
                            newv[i.dest] = self.val(fr, op, i.ty)
                            break
                    else:
                        raise ir.IRError(f'phi {i.dest} has no entry for predecessor {prev}')
                fr.regs.update(newv)
                if self.on_block is not None and getattr(self, 'after_phis', None):
                    self.after_phis(fr, block, prev)      # type: ignore[attr-defined]
            for i in b.instrs[len(phis):]:
                self.steps += 1
                if self.steps > self.max_steps:
                    raise Inconclusive(f'llsx step bound {self.max_steps} reached (unwinding bound)')
                op = i.op
                if op in ir.BIN:
                    fr.regs[i.dest] = self.binop(i, self.val(fr, i.args[0], i.ty), self.val(fr, i.args[1], i.ty))
                elif op == 'icmp':
                    fr.regs[i.dest] = self.icmp(i.extra, i.ty, self.val(fr, i.args[0], i.ty), self.val(fr, i.args[1], i.ty))
                elif op == 'load':
                    fr.regs[i.dest] = self.load(self.val(fr, i.args[0], ir.I64), i.ty)
                elif op == 'store':
                    self.store(self.val(fr, i.args[1], ir.I64), i.ty, self.val(fr, i.args[0], i.ty))
                elif op == 'getelementptr':
                    (pty, pop), *idx = i.args
                    fr.regs[i.dest] = self.gep(i.ty, self.val(fr, pop, pty), [(t, self.val(fr, o, t)) for t, o in idx])
                elif op == 'alloca':
                    o = self.alloc(max(self.m.types.layout(i.ty)[0], 8), 'stack', f'{fr.fn.name}:{i.dest}')
                    fr.allocas.append(o)
                    fr.regs[i.dest] = self.ptr(o)
                elif op in ir.CAST:
                    fr.regs[i.dest] = self.cast(op, i.extra, i.ty, self.val(fr, i.args[0], i.extra))
                elif op == 'select':
                    c = self.val(fr, i.args[0], ir.I1)
                    a, bb = self.val(fr, i.args[1], i.ty), self.val(fr, i.args[2], i.ty)
                    if is_c(c):
                        fr.regs[i.dest] = a if c else bb
                    elif isinstance(a, FP) or isinstance(bb, FP):
                        fr.regs[i.dest] = FP()
                    else:
                        bits = 64 if i.ty.kind == 'ptr' else i.ty.bits
                        fr.regs[i.dest] = simp(z3.If(c == 1, bv(a, bits), bv(bb, bits)))
                elif op in ir.FBIN:
                    fr.regs[i.dest] = FP()
                elif op == 'call':
                    callee = i.extra
                    if callee.startswith('%'):
                        fp_ = fr.regs[callee]
                        o, _ = self.resolve(fp_)
                        callee = o.meta.get('function')
                        if callee is None:
                            raise MemoryViolation('call through a non-function pointer')
                    args = [self.val(fr, o_, t) for t, o_ in i.args]
                    if callee.startswith('@llvm.'):
                        r = self.intrinsic(callee, args)
                    else:
                        r = self.call(callee, args)
                    if i.dest is not None:
                        fr.regs[i.dest] = r
                elif op == 'br':
                    prev = block
                    if not i.args:
                        block = i.extra[0]
                    else:
                        c = self.val(fr, i.args[0], ir.I1)
                        t = bool(c) if is_c(c) else E.branch(c == 1)
                        block = i.extra[0] if t else i.extra[1]
                    break
                elif op == 'switch':
                    v = self.val(fr, i.args[0], i.ty)
                    default, cases = i.extra
                    prev = block
                    if is_c(v):
                        block = next((lbl for c_, lbl in cases if c_ == v), default)
                    else:
                        for c_, lbl in cases:
                            if E.branch(v == c_):
                                block = lbl
                                break
                        else:
                            block = default
                    break
                elif op == 'ret':
                    return None if not i.args else self.val(fr, i.args[0], i.ty)
                elif op == 'unreachable':
                    raise MemoryViolation('reached unreachable')
                else:
                    raise ir.IRError(f'cannot execute {i.text}')
            else:
                raise ir.IRError(f'block {block} has no terminator')

    # ------------------------------------------------------------------ arithmetic
    def binop(self, i: ir.Instr, a: Any, b: Any) -> Any:
        op, bits = i.op, i.ty.bits
        mask = (1 << bits) - 1
        if is_c(a) and is_c(b):
            sa = a - (1 << bits) if a >> (bits - 1) else a
            sb = b - (1 << bits) if b >> (bits - 1) else b
            if op == 'add': return (a + b) & mask
            if op == 'sub': return (a - b) & mask
            if op == 'mul': return (a * b) & mask
            if op == 'and': return a & b
            if op == 'or': return a | b
            if op == 'xor': return a ^ b
            if op == 'shl':
                if b >= bits: raise MemoryViolation(f'shift by {b} >= width {bits}')
                return (a << b) & mask
            if op == 'lshr':
                if b >= bits: raise MemoryViolation(f'shift by {b} >= width {bits}')
                return a >> b
            if op == 'ashr':
                if b >= bits: raise MemoryViolation(f'shift by {b} >= width {bits}')
                return (sa >> b) & mask
            if op in ('urem', 'udiv'):
                if b == 0: raise MemoryViolation('division by zero')
                return a % b if op == 'urem' else a // b
            if op in ('sdiv', 'srem'):
                if sb == 0: raise MemoryViolation('division by zero')
                q = abs(sa) // abs(sb) * (1 if (sa < 0) == (sb < 0) else -1)
                return (q if op == 'sdiv' else sa - q * sb) & mask
        za, zb = bv(a, bits), bv(b, bits)
        poison = None
        if op in ('shl', 'lshr', 'ashr') and not is_c(b) and self.check_memory:
            # LLVM: a shift by >= width yields POISON, which is undefined behaviour only when it is used (instcombine hoists the
            # guarded shift of  (w == 64) ? ~0 : (1 << w) - 1  above its select). The result is an arbitrary fresh value in that
            # case: a use that matters then fails some obligation with an arbitrary value, a discarded one costs nothing.
            self.E.obligations += 1
            r_ = self.E._check(z3.Not(z3.ULT(zb, bits)))
            if r_ == 'unsat':
                self.E.discharged += 1
            elif r_ == 'sat':
                self.E.discharged += 1
                self.npoison = getattr(self, 'npoison', 0) + 1
                poison = z3.BitVec(f'poison_shift_{self.npoison}', bits)
            else:
                raise Inconclusive(f'solver {r_} on a shift amount')
        if op in ('urem', 'udiv', 'sdiv', 'srem') and not is_c(b):
            self._oblige(zb != 0, f'divisor != 0 in {i.text[:60]}')
        if is_c(b) and op in ('shl', 'lshr', 'ashr') and b >= bits:
            raise MemoryViolation(f'shift by {b} >= width {bits}')
        r = {'add': lambda: za + zb, 'sub': lambda: za - zb, 'mul': lambda: za * zb, 'and': lambda: za & zb, 'or': lambda: za | zb,
             'xor': lambda: za ^ zb, 'shl': lambda: za << zb, 'lshr': lambda: z3.LShR(za, zb), 'ashr': lambda: za >> zb,
             'urem': lambda: z3.URem(za, zb), 'udiv': lambda: z3.UDiv(za, zb), 'sdiv': lambda: za / zb, 'srem': lambda: z3.SRem(za, zb)}[op]()
        if poison is not None:
            r = z3.If(z3.ULT(zb, bits), r, poison)
        return simp(r)

    def _oblige(self, cond: Any, what: str) -> None:
        if not self.check_memory:
            return
        self.E.obligations += 1
        r = self.E._check(z3.Not(cond))
        if r == 'unsat':
            self.E.discharged += 1
        elif r == 'sat':
            raise MemoryViolation(f'undefined behaviour possible: {what}', self.E.last_model())
        else:
            raise Inconclusive(f'solver {r} on {what}')

    def icmp(self, pred: str, ty: ir.Ty, a: Any, b: Any) -> Any:
        bits = 64 if ty.kind == 'ptr' else ty.bits
        if is_c(a) and is_c(b):
            sa = a - (1 << bits) if a >> (bits - 1) else a
            sb = b - (1 << bits) if b >> (bits - 1) else b
            return int({'eq': a == b, 'ne': a != b, 'ult': a < b, 'ule': a <= b, 'ugt': a > b, 'uge': a >= b,
                        'slt': sa < sb, 'sle': sa <= sb, 'sgt': sa > sb, 'sge': sa >= sb}[pred])
        za, zb = bv(a, bits), bv(b, bits)
        c = {'eq': lambda: za == zb, 'ne': lambda: za != zb, 'ult': lambda: z3.ULT(za, zb), 'ule': lambda: z3.ULE(za, zb),
             'ugt': lambda: z3.UGT(za, zb), 'uge': lambda: z3.UGE(za, zb), 'slt': lambda: za < zb, 'sle': lambda: za <= zb,
             'sgt': lambda: za > zb, 'sge': lambda: za >= zb}[pred]()
        return simp(z3.If(c, z3.BitVecVal(1, 1), z3.BitVecVal(0, 1)))

    def cast(self, op: str, sty: ir.Ty, dty: ir.Ty, v: Any) -> Any:
        if op in ('bitcast', 'ptrtoint', 'inttoptr'):
            return v
        if op in ('sitofp', 'uitofp', 'fpext', 'fptrunc'):
            return FP()
        sb, db = sty.bits, dty.bits
        if is_c(v):
            if op == 'zext':
                return v
            if op == 'sext':
                return (v - (1 << sb) if v >> (sb - 1) else v) & ((1 << db) - 1)
            if op == 'trunc':
                return v & ((1 << db) - 1)
        if op == 'zext':
            return simp(z3.ZeroExt(db - sb, v))
        if op == 'sext':
            return simp(z3.SignExt(db - sb, v))
        if op == 'trunc':
            return simp(z3.Extract(db - 1, 0, v))
        raise ir.IRError(f'cast {op}')

    def intrinsic(self, name: str, args: List[Any]) -> Any:
        if name.startswith('@llvm.memset'):
            p, val, n = args[0], args[1], args[2]
            return self.memset(p, val, n)
        if name.startswith('@llvm.memcpy') or name.startswith('@llvm.memmove'):
            return self.memcpy(args[0], args[1], args[2])
        if name.startswith('@llvm.lifetime') or name.startswith('@llvm.dbg'):
            return None
        raise ir.IRError(f'intrinsic {name}')

    def memset(self, p: Any, val: Any, n: Any) -> None:
        o, off = self.resolve(p)
        if not is_c(val):
            raise Inconclusive('memset with a symbolic value')
        fill = int.from_bytes(bytes([val]) * 8, 'little')
        if not is_c(off) or (not is_c(n) and o.meta.get('memset') is None):
            self._bulk_aligned(off, n, 'memset')
            self._check_access(o, off, n, f'memset')
            o.write_range(simp(z3.LShR(bv(off, 64), 3)), simp(z3.LShR(bv(n, 64), 3)), lambda i: fill)
            return
        if off % 8:
            raise Inconclusive('memset at a misaligned offset')
        if is_c(n):
            if n % 8:
                raise Inconclusive('memset length not a multiple of 8')
            self._check_access(o, off, n, 'memset')
            for c in range(off // 8, (off + n) // 8):
                o.write(c, fill)
            return
        handler = o.meta.get('memset')
        if handler is None:
            raise Inconclusive(f'memset of symbolic length on {o.name}')
        self._check_access(o, off, 0, 'memset')
        self._oblige(z3.ULE(bv(off, 64) + n, bv(o.size, 64)), f'memset stays inside {o.name}')
        handler(off // 8, n, fill)

    def _bulk_aligned(self, off: Any, n: Any, what: str) -> None:
        for t, nm in ((off, 'offset'), (n, 'length')):
            if is_c(t):
                if t % 8:
                    raise Inconclusive(f'{what}: {nm} not a multiple of 8')
            elif self.E._check(z3.Extract(2, 0, bv(t, 64)) != 0) != 'unsat':
                raise Inconclusive(f'{what}: symbolic {nm} not provably a multiple of 8')

    def memcpy(self, d: Any, s: Any, n: Any) -> None:
        do, doff = self.resolve(d)
        so, soff = self.resolve(s)
        if is_c(n) and is_c(doff) and is_c(soff) and n % 8 == 0 and doff % 8 == 0 and soff % 8 == 0:
            self._check_access(do, doff, n, 'memcpy write')
            self._check_access(so, soff, n, 'memcpy read')
            for k in range(n // 8):
                do.write(doff // 8 + k, so.read(soff // 8 + k))
            return
        handler = do.meta.get('memcpy')
        if handler is None:
            self._bulk_aligned(doff, n, 'memcpy')
            self._bulk_aligned(soff, 0, 'memcpy source')
            self._check_access(do, doff, n, 'memcpy write')
            self._check_access(so, soff, n, 'memcpy read')
            if so is do:
                raise Inconclusive('memcpy within one object')
            snap = list(so.stores)
            d0, s0 = simp(z3.LShR(bv(doff, 64), 3)), simp(z3.LShR(bv(soff, 64), 3))
            do.write_range(d0, simp(z3.LShR(bv(n, 64), 3)), lambda i: so.term_over(snap, bv(s0, 64) + (i - bv(d0, 64))))
            return
        self._oblige(z3.And(z3.ULE(bv(doff, 64) + n, bv(do.size, 64)), z3.ULE(bv(soff, 64) + n, bv(so.size, 64))),
                     f'memcpy stays inside {do.name} / {so.name}')
        handler(doff, so, soff, n)
