"""The world outside _fjcore.c, as stubs for the llsx machine (every stub is listed in the evidence of the checks using it),
plus the builders of symbolic native states and the reference-side adapters."""
from __future__ import annotations

import hashlib
import shutil
import sysconfig
from pathlib import Path
from typing import Any, Callable, Dict, List, Optional, Tuple

import z3

from fjv import common, pyspec
from fjv.common import Inconclusive
from fjv.llsx import ir
from fjv.llsx.interp import FP, Cut, Machine, MemoryViolation, Obj, bv, is_c, simp, M64
from fjv.pysym import Engine, SymBool, engine, lift, mk, mkb, sym_int, to_z3

GARBAGE_SENTINEL = 1 << 63
FLAT_GARBAGE_MAGIC = 0xBB67AE8584CAA73B
PAGE_BITS = 14
PAGE_WORDS = 1 << PAGE_BITS

STUBS_TEXT = [
    'malloc/calloc/realloc -> fresh object of the requested (possibly symbolic) size, or NULL when the harness allows allocation '
    'failure; free -> liveness flag (double free / use after free are violations)',
    'PyErr_CheckSignals -> 0, or an arbitrary 0/-1 per call when the harness models interrupts',
    'PyObject_CallFunctionObjArgs(write_bit, Py_True|Py_False) -> records the bit, returns a new reference (or NULL + error when the '
    'harness models device failure)',
    'PyObject_CallNoArgs(read_bit) + PyObject_IsTrue -> next symbolic input bit as a new reference; NULL + an error matching the '
    'end-of-input type at end of input (or a non-matching error / IsTrue == -1 when the harness models device failure)',
    'PyErr_ExceptionMatches / PyErr_Clear / PyErr_Occurred / PyErr_SetString / PyErr_NoMemory -> one error-indicator cell',
    '_Py_Dealloc -> records the object as deallocated (reference counts are real memory cells updated by the inlined Py_DECREF IR)',
    'clock_gettime -> arbitrary values; doubles are opaque (only paused-seconds bookkeeping)',
    'getenv -> per-name constant chosen by the harness configuration; fprintf/fflush/fwrite -> no-op',
]


def c_source() -> Path:
    return common.REPO / 'flipjump' / 'interpreter' / '_fjcore.c'


_MODULE_CACHE: Dict[str, ir.Module] = {}


def load_module() -> ir.Module:
    """IR regenerated from /repo's current _fjcore.c (cached per content hash inside one process)"""
    src = c_source()
    h = hashlib.sha1(src.read_bytes()).hexdigest()
    if h in _MODULE_CACHE:
        return _MODULE_CACHE[h]
    d = common.scratch_dir('llsx-' + h[:10])
    out = d / 'fj.ll'
    if not out.exists():
        ir.build_ir(src, d, sysconfig.get_paths()['include'])
    m = ir.Module(out.read_text())
    # cross-check of the struct layout rules against clang's own sizeof: PyType_Spec.basicsize of Memory_type_spec
    g = m.globals.get('@Memory_type_spec')
    if g is not None:
        import re
        mm = re.search(r'i32 (\d+), i32 0, i32 0', g[1])
        size = m.types.layout(ir.Ty('struct', name='%struct.MemoryObject'))[0]
        if mm and int(mm.group(1)) != size:
            raise ir.IRError(f'struct layout mismatch: computed sizeof(MemoryObject)={size}, clang says {mm.group(1)}')
    _MODULE_CACHE[h] = m
    return m


def cleanup_ir() -> None:
    for p in Path('/var/tmp').glob(f'fjv-*-llsx-*'):
        shutil.rmtree(p, ignore_errors=True)


class World:
    """stub state for one path"""

    def __init__(self, M: Machine, *, n_inputs: int = 2, signals: bool = False, io_fail: bool = False, alloc_fail: bool = False,
                 env: Optional[Dict[str, Optional[str]]] = None):
        self.M = M
        self.out: List[Any] = []            # recorded write_bit arguments (z3 Bool / bool)
        self.reads = 0
        self.avail = [z3.Bool(f'avail{i}') for i in range(n_inputs)]
        self.bits = [z3.Bool(f'inbit{i}') for i in range(n_inputs)]
        for c in self.avail + self.bits:
            M.E.inputs.setdefault(str(c), c)
        self.err: Optional[str] = None      # None | 'eof' | 'other' | 'nomem' | 'value' | 'interrupt'
        self.signals, self.io_fail, self.alloc_fail = signals, io_fail, alloc_fail
        self.env = env or {}
        self.dealloc: List[int] = []
        self.events: List[str] = []
        self.nfresh = 0
        self.pyobjs: List[Obj] = []
        self.install()

    def fresh_bool(self, tag: str) -> Any:
        self.nfresh += 1
        b = z3.Bool(f'{tag}{self.nfresh}')
        self.M.E.inputs.setdefault(str(b), b)
        return b

    def new_pyobj(self, name: str, refcnt: int = 1) -> Obj:
        o = self.M.alloc(16, 'pyobj', name, zero=True)
        o.write(0, refcnt)
        self.pyobjs.append(o)
        return o

    def singleton(self, gname: str) -> Any:
        p = self.M.global_ptr(gname)
        o, _ = self.M.resolve(p)
        if 'init' not in o.meta:
            o.write(0, 0xFFFFFFFF)        # immortal
            o.meta['init'] = True
        return p

    def install(self) -> None:
        M, S = self.M, self.M.stubs
        E = M.E

        def malloc(n: Any) -> Any:
            if self.alloc_fail and E.branch(self.fresh_bool('allocfail')):
                self.events.append('alloc-failed')
                return 0
            return M.ptr(M.alloc(n, 'heap', f'malloc{M.next_id}'))

        def calloc(a: Any, b: Any) -> Any:
            if self.alloc_fail and E.branch(self.fresh_bool('allocfail')):
                self.events.append('alloc-failed')
                return 0
            n = a * b if is_c(a) and is_c(b) else simp(bv(a, 64) * bv(b, 64))
            if not (is_c(a) and is_c(b)):
                M._oblige(z3.Or(bv(a, 64) == 0, z3.UDiv(bv(a, 64) * bv(b, 64), bv(a, 64)) == bv(b, 64)), 'calloc size does not overflow')
            return M.ptr(M.alloc(n, 'heap', f'calloc{M.next_id}', zero=True))

        def free(p: Any) -> None:
            if is_c(p) and p == 0:
                return
            o, off = M.resolve(p)
            if not (is_c(off) and off == 0):
                raise MemoryViolation(f'free of an interior pointer into {o.name}')
            if o.kind != 'heap':
                raise MemoryViolation(f'free of non-heap object {o.name}')
            if not o.live:
                raise MemoryViolation(f'double free of {o.name}')
            o.live = False

        def realloc(p: Any, n: Any) -> Any:
            if self.alloc_fail and E.branch(self.fresh_bool('allocfail')):
                return 0
            new = M.alloc(n, 'heap', f'realloc{M.next_id}')
            if not (is_c(p) and p == 0):
                o, _ = M.resolve(p)
                new.stores = list(o.stores)
                new.base, new.zero = o.base, o.zero
                new.conc = dict(o.conc)
                o.live = False
            return M.ptr(new)

        S['@malloc'], S['@calloc'], S['@free'], S['@realloc'] = malloc, calloc, free, realloc

        def check_signals() -> Any:
            if self.signals and E.branch(self.fresh_bool('signal')):
                self.err = 'interrupt'
                self.events.append('signal')
                return 0xFFFFFFFF
            return 0
        S['@PyErr_CheckSignals'] = check_signals

        def call_write(func: Any, arg: Any, sentinel: Any = 0) -> Any:
            t = self.singleton('@_Py_TrueStruct')
            f = self.singleton('@_Py_FalseStruct')
            if self.io_fail and E.branch(self.fresh_bool('writefail')):
                self.err = 'other'
                self.events.append('write-failed')
                return 0
            if is_c(arg):
                if arg not in (t, f):
                    raise MemoryViolation('write_bit called with something else than Py_True/Py_False')
                self.out.append(arg == t)
            else:
                self.out.append(arg == t)
            return M.ptr(self.new_pyobj('write_result'))
        S['@PyObject_CallFunctionObjArgs'] = call_write

        def call_read(func: Any) -> Any:
            i = self.reads
            self.reads += 1
            if i >= len(self.avail):
                raise Inconclusive('harness: more native reads than modelled input bits')
            if self.io_fail and E.branch(self.fresh_bool('readfail')):
                self.err = 'other'
                self.events.append('read-failed')
                return 0
            if not E.branch(self.avail[i]):
                self.err = 'eof'
                return 0
            o = self.new_pyobj('read_result')
            o.meta['truth'] = self.bits[i]
            return M.ptr(o)
        S['@PyObject_CallNoArgs'] = call_read

        def is_true(p: Any) -> Any:
            o, _ = M.resolve(p)
            if self.io_fail and E.branch(self.fresh_bool('istruefail')):
                self.err = 'other'
                self.events.append('istrue-failed')
                return 0xFFFFFFFF
            t = o.meta.get('truth')
            if t is None:
                raise Inconclusive('PyObject_IsTrue on an object without a modelled truth value')
            return simp(z3.If(t, z3.BitVecVal(1, 32), z3.BitVecVal(0, 32)))
        S['@PyObject_IsTrue'] = is_true
        S['@PyErr_ExceptionMatches'] = lambda t: 1 if self.err == 'eof' else 0

        def clear() -> None:
            self.err = None
        S['@PyErr_Clear'] = clear
        S['@PyErr_Occurred'] = lambda: 0 if self.err is None else M.ptr(self.new_pyobj('exc'))

        def set_string(exc: Any, msg: Any) -> None:
            self.err = 'value'
        S['@PyErr_SetString'] = set_string

        def no_memory() -> Any:
            self.err = 'nomem'
            return 0
        S['@PyErr_NoMemory'] = no_memory

        def dealloc(p: Any) -> None:
            o, _ = M.resolve(p)
            if o.id in self.dealloc:
                raise MemoryViolation(f'object {o.name} deallocated twice')
            self.dealloc.append(o.id)
            o.live = False
        S['@_Py_Dealloc'] = dealloc

        def clock_gettime(clk: Any, ts: Any) -> Any:
            self.nfresh += 1
            M.store(ts, ir.I64, z3.BitVec(f'tv_sec{self.nfresh}', 64))
            M.store(M.gep(ir.I64, ts, [(ir.I64, 1)]), ir.I64, z3.BitVec(f'tv_nsec{self.nfresh}', 64))
            return 0
        S['@clock_gettime'] = clock_gettime

        def getenv(namep: Any) -> Any:
            o, _ = M.resolve(namep)
            name = (o.bytes_ or b'').split(b'\0')[0].decode()
            v = self.env.get(name)
            if v is None:
                return 0
            s = M.alloc(len(v) + 1, 'global', f'env:{name}')
            s.bytes_ = v.encode() + b'\0'
            return M.ptr(s)
        S['@getenv'] = getenv
        S['@fprintf'] = lambda *a: 0
        S['@fflush'] = lambda *a: 0
        S['@fwrite'] = lambda *a: 0

        def strtoull(s: Any, end: Any, base: Any) -> Any:
            self.nfresh += 1
            return z3.BitVec(f'strtoull{self.nfresh}', 64)
        S['@strtoull'] = strtoull


# ----------------------------------------------------------------------------------------------- native state

class NativeState:
    """a symbolic Memory object in flat / hybrid / paged mode with its abstraction (valid, word)"""

    def __init__(self, M: Machine, w: int, nsegs: int, mode: str, npages: int = 0):
        self.M, self.w, self.mode = M, w, mode
        E = M.E
        T = M.m.types
        MO = ir.Ty('struct', name='%struct.MemoryObject')
        self.offs = T.layout(MO)[2]
        self.fields = T.fields(MO)
        ww = w.bit_length() - 1
        word_mask = (1 << w) - 1
        b64 = lambda n: z3.BitVec(n, 64)  # noqa: E731
        # segments: sorted, disjoint, non-empty
        self.segs = [(b64(f'seg{i}_start'), b64(f'seg{i}_end')) for i in range(nsegs)]
        cons = []
        for i, (s, e) in enumerate(self.segs):
            cons.append(z3.ULT(s, e))
            if i:
                cons.append(z3.ULE(self.segs[i - 1][1], s))
            E.inputs.setdefault(f'seg{i}_start', s)
            E.inputs.setdefault(f'seg{i}_end', e)
        # word addresses are < 2^(w - ww) for the program; segments may lie anywhere in 64 bits
        self.FC = b64('flat_count')
        E.inputs.setdefault('flat_count', self.FC)
        self.MA = z3.Array('MA', z3.BitVecSort(64), z3.BitVecSort(w))      # abstract memory: word address -> word
        E.inputs.setdefault('MA', self.MA)
        if mode == 'flat':
            cons += [z3.UGE(self.FC, 2), z3.ULE(self.FC, 1 << 22), z3.ULE(self.segs[-1][1], self.FC)]
            # mem_decide_storage makes flat_count = the largest segment end below the limit
            cons.append(self.FC == self.segs[-1][1])
        elif mode == 'hybrid':
            # the flat window ends inside or at the end of some segment that starts below it; at least one word lies above it
            cons += [z3.UGE(self.FC, 2), z3.ULE(self.FC, 1 << 22), z3.UGT(self.segs[-1][1], self.FC),
                     z3.Or(*[z3.And(z3.ULT(s_, self.FC), z3.ULE(self.FC, e_)) for s_, e_ in self.segs])]
        self.JUNK = z3.Array('JUNK', z3.BitVecSort(64), z3.BitVecSort(64))     # page-backed words outside every segment (device writes)
        self.pages: List[Tuple[Any, Obj, Obj]] = []      # (page index term, Page struct, words object)
        self.prog_stores: List[Tuple[Any, Any]] = []     # (word address, value) of every program-memory store, in order
        for c in cons:
            E.base.append(c)
            E.solver.add(c)
        garbage = GARBAGE_SENTINEL if w <= 32 else FLAT_GARBAGE_MAGIC

        def flat_base(idx: Any) -> Any:
            return z3.If(self.valid(idx), z3.ZeroExt(64 - w, z3.Select(self.MA, idx)) if w < 64 else z3.Select(self.MA, idx),
                         z3.BitVecVal(garbage, 64))
        self.garbage = garbage
        self.flat = M.alloc(simp(self.FC * 8), 'heap', 'flat', base=flat_base) if mode in ('flat', 'hybrid') else None
        if self.flat is not None:
            self.flat.meta['ncells'] = self.FC

            def fork_base(idx: Any) -> Any:
                if E.branch(self.valid(idx)):
                    return simp(z3.ZeroExt(64 - w, z3.Select(self.MA, idx)) if w < 64 else z3.Select(self.MA, idx))
                return garbage
            self.flat.meta['canon_idx'] = M.canon          # flat cell index = word address
            self.flat.meta['on_write'] = lambda idx, v: self.prog_stores.append((bv(idx, 64), v))
            self.flat.meta['fork_reads'] = True
            self.flat.meta['fork_base'] = fork_base
        self.segobj = M.alloc(16 * 8, 'heap', 'segments')
        for i, (s, e) in enumerate(self.segs):
            self.segobj.write(2 * i, s)
            self.segobj.write(2 * i + 1, e)
        self.self_obj = M.alloc(T.layout(MO)[0], 'pyobj', 'self', zero=True)
        so = self.self_obj
        so.write(0, 1)      # refcount
        self.set_field('w', 1, w, 4)
        self.set_field('ww', 2, ww, 4)
        self.set_field('word_mask', 3, word_mask)
        self.set_field('garbage_stop', 4, 1, 4)
        self.set_field('segments', 13, M.ptr(self.segobj))
        self.set_field('segment_count', 14, nsegs)
        self.set_field('segment_capacity', 15, 8)
        self.set_field('segments_sorted', 16, 1, 4)
        if self.flat is not None:
            self.set_field('flat', 17, M.ptr(self.flat))
            self.set_field('flat_count', 18, self.FC)
        self.set_field('storage_decided', 20, 1, 4)
        self.set_field('flat_covers_all', 21, 1 if mode == 'flat' else 0, 4)

    def set_field(self, name: str, index: int, value: Any, size: int = 8) -> None:
        off = self.offs[index]
        ty = ir.I64 if size == 8 else ir.I32
        self.M.store(self.M.ptr(self.self_obj, off), ty, value)

    def get_field(self, index: int, size: int = 8) -> Any:
        return self.M.load(self.M.ptr(self.self_obj, self.offs[index]), ir.I64 if size == 8 else ir.I32)

    def valid(self, idx: Any) -> Any:
        return z3.Or(*[z3.And(z3.ULE(s, idx), z3.ULT(idx, e)) for s, e in self.segs])

    # ------------------------------------------------------------------ pages (contract model of mem_get_page)
    def page_for(self, pi: Any, world: 'World') -> Any:
        """the Page* for page index pi: an already materialised page (decided by forking on index equality) or a new one whose
        words represent (valid ? word : junk) and whose fast valid range is computed by the REAL page_compute_validity IR"""
        M, E, w = self.M, self.M.E, self.w
        for pj, pobj, _ in self.pages:
            if (is_c(pi) and is_c(pj) and pi == pj) or (not (is_c(pi) and is_c(pj)) and E.branch(bv(pi, 64) == bv(pj, 64))):
                return M.ptr(pobj)
        if world.alloc_fail and E.branch(world.fresh_bool('allocfail')):
            world.err = 'nomem'
            world.events.append('alloc-failed')
            return 0
        pi_t = bv(pi, 64)

        def wa_of(off: Any) -> Any:
            return M.canon(simp((pi_t << PAGE_BITS) | bv(off, 64)))

        def fork_base(off: Any) -> Any:
            wa = wa_of(off)
            live = self.valid(bv(wa, 64))
            if self.flat is not None:
                # hybrid: in-segment words below the flat window live in the flat array; their page copy is stale (arbitrary)
                live = z3.And(live, z3.UGE(bv(wa, 64), self.FC))
            if E.branch(live):
                return simp(z3.ZeroExt(64 - w, z3.Select(self.MA, bv(wa, 64))) if w < 64 else z3.Select(self.MA, bv(wa, 64)))
            return simp(z3.Select(self.JUNK, bv(wa, 64)))
        words = M.alloc(PAGE_WORDS * 8, 'heap', f'page_words{len(self.pages)}')
        words.meta.update(fork_reads=True, fork_base=fork_base, wa_of=wa_of,
                          on_write=lambda off, v: self.prog_stores.append((bv(wa_of(off), 64), v)))
        pobj = M.alloc(24, 'heap', f'page{len(self.pages)}')
        pobj.write(0, M.ptr(words))
        self.pages.append((pi, pobj, words))
        M.call('@page_compute_validity', [M.ptr(self.self_obj), pi, M.ptr(pobj)])
        return M.ptr(pobj)

    def install_get_page(self, world: 'World') -> None:
        M = self.M

        def mem_get_page(m: Any, pi: Any) -> Any:
            key = pi + 1 if is_c(pi) else simp(pi + 1)
            slot = pi & 15 if is_c(pi) else simp(pi & 15)
            cached_key = M.load(M.gep(ir.I64, M.ptr(self.self_obj, self.offs[8]), [(ir.I64, slot)]), ir.I64)
            hit = (cached_key == key) if is_c(cached_key) and is_c(key) else M.E.branch(bv(cached_key, 64) == bv(key, 64))
            if hit:
                return M.load(M.gep(ir.I64, M.ptr(self.self_obj, self.offs[9]), [(ir.I64, slot)]), ir.I64)
            p = self.page_for(pi, world)
            if is_c(p) and p == 0:
                return 0
            M.call('@page_cache_fill', [m, slot, key, p])
            return p
        M.stubs['@mem_get_page'] = mem_get_page


class NativeSpecMem:
    """pyspec's memory interface over the abstraction (valid, MA) of a NativeState"""

    def __init__(self, ns: NativeState, W: int):
        self.ns, self.W = ns, W
        self.arr = ns.MA
        self.stores: List[Tuple[Any, Any]] = []      # (index BV64, value BV w) in order
        self._norm: Dict[int, Tuple[Any, Any]] = {}
        self.keys: List[Any] = []

    def _idx(self, wa: Any) -> Any:
        """the 64-bit word-address term; when it provably equals a word address the C op used, that term is returned instead
        (same value, the C code's term shape: later conditions then coincide syntactically with what is already on the path)"""
        k = lift(wa)[0]
        t = simp(z3.Extract(63, 0, k))
        return self.ns.M.canon(t)

    def valid(self, wa: Any) -> Any:
        k = lift(wa)[0]
        i = self._idx(wa)
        self.keys.append(bv(i, 64))
        hi = z3.Extract(self.W - 1, 64, k) == 0        # a word address beyond 64 bits is never inside a segment
        return mkb(z3.And(hi, self.ns.valid(bv(i, 64))))

    def load(self, wa: Any) -> Any:
        i = bv(self._idx(wa), 64)
        E = engine()
        v = None
        for si, sv in reversed(self.stores):       # aliasing with earlier stores decided by forking (as on the C side)
            if E.branch(si == i):
                v = sv
                break
        if v is None:
            v = z3.Select(self.ns.MA, i)
        return mk(z3.ZeroExt(self.W - self.ns.w, v), 0, (1 << self.ns.w) - 1)

    def store(self, wa: Any, v: Any) -> None:
        i, x = self._idx(wa), simp(z3.Extract(self.ns.w - 1, 0, lift(v)[0]))
        self.stores.append((bv(i, 64), bv(x, self.ns.w)))
        self.arr = z3.Store(self.arr, bv(i, 64), bv(x, self.ns.w))


class NativeSpecIO:
    def __init__(self, world: World):
        self.world, self.pos, self.out, self.reads = world, 0, [], 0

    def read(self) -> Tuple[Any, Any]:
        i = self.pos
        self.reads += 1
        if i >= len(self.world.avail):
            raise Inconclusive('harness: more spec reads than modelled input bits')
        self.pos += 1
        return mkb(self.world.avail[i]), mkb(self.world.bits[i])

    def write(self, bit: Any) -> None:
        self.out.append(bit)


CAUSE_TO_STATUS = {0: pyspec.LOOPING, 1: pyspec.EOF, 2: pyspec.NULLIP, 3: pyspec.MEMERR}
