"""Validation of the llsx executor: concrete runs of the IR of run_flat_loop / run_generic_loop on small images must agree
with a fresh native build of the same C file (cause, op count, fault address, outputs)."""
from __future__ import annotations

from typing import Any, Dict, List

import z3

from fjv import common, pyspec
from fjv.common import Inconclusive, Report
from fjv.llsx import env, ir, native_replay
from fjv.llsx.interp import Cut, Machine, MemoryViolation, is_c, simp
from fjv.pysym import Engine

IMAGES: List[Dict[str, Any]] = [
    # (from tests/unit/test_fast_run.py) w=16: op0 flips bit 112 and jumps to the unaligned op at bit 72, which self-loops
    {'name': 'unaligned-w16', 'w': 16, 'segments': [[0, 8]], 'words': {str(i): v for i, v in enumerate([112, 72, 0, 0, 0x7000, 0x4800, 0, 0])},
     'ip': 0, 'inputs': []},
    # w=8: output a 1 bit, then a halting self-loop
    {'name': 'output-w8', 'w': 8, 'segments': [[0, 8]], 'words': {str(i): v for i, v in enumerate([17, 32, 0, 0, 0, 32, 0, 0])}, 'ip': 0, 'inputs': []},
    # jump below 2w
    {'name': 'null-ip-w32', 'w': 32, 'segments': [[0, 4]], 'words': {'0': 0, '1': 64, '2': 0, '3': 0}, 'ip': 0, 'inputs': []},
    # flip outside every segment -> memory error with the flip word's address
    {'name': 'memerr-w64', 'w': 64, 'segments': [[0, 4]], 'words': {'0': 64 * 100, '1': 128, '2': 0, '3': 128}, 'ip': 0, 'inputs': []},
    # input: the op at 2w covers the input bit (w=8: in_addr = 3*8+4 = 28), two ops then EOF
    {'name': 'input-w8', 'w': 8, 'segments': [[0, 8]], 'words': {str(i): v for i, v in enumerate([0, 16, 0, 16, 0, 0, 0, 0])}, 'ip': 0,
     'inputs': [[True, True], [False, False]]},
    # a word equal to the w=64 magic fill constant, used as a flip word inside a segment
    {'name': 'magic-w64', 'w': 64, 'segments': [[0, 6]], 'words': {'0': 0, '1': 128, '2': 0xBB67AE8584CAA73B, '3': 128, '4': 0, '5': 0},
     'ip': 0, 'inputs': []},
]


def run_ir_concrete(img: Dict[str, Any]) -> Dict[str, Any]:
    module = env.load_module()
    E = Engine(144)
    out: Dict[str, Any] = {}

    def body() -> None:
        M = Machine(module, E)
        world = env.World(M, n_inputs=len(img['inputs']) + 1)
        w = img['w']
        ns = env.NativeState(M, w, len(img['segments']), 'flat')
        # pin every symbol to the image
        for (s, e), (cs, ce) in zip(ns.segs, img['segments']):
            E._assume(z3.And(s == cs, e == ce))
        E._assume(ns.FC == img['segments'][-1][1])
        for k, v in img['words'].items():
            E._assume(z3.Select(ns.MA, z3.BitVecVal(int(k), 64)) == v)
        for i, (av, b) in enumerate(img['inputs']):
            E._assume(world.avail[i] == av)
            E._assume(world.bits[i] == b)
        E._assume(z3.Not(world.avail[len(img['inputs'])]))
        E._refresh_model()
        ops_out, paused = M.alloc(8, 'stack', 'ops_out'), M.alloc(8, 'stack', 'paused')
        rb, wb, eof = (M.ptr(world.new_pyobj(n_, 5)) for n_ in ('read_bit', 'write_bit', 'eof_type'))
        M.max_steps = 50_000
        r = M.call('@run_flat_loop', [M.ptr(ns.self_obj), rb, wb, eof, img['ip'], M.ptr(ops_out), M.ptr(paused)])
        ev = lambda t: t if is_c(t) else E.last_model().eval(t, model_completion=True).as_long()  # noqa: E731
        E._check()
        outs = []
        for b in world.out:
            outs.append(bool(b) if isinstance(b, bool) else z3.is_true(E.last_model().eval(b, model_completion=True)))
        out.update(status=env.CAUSE_TO_STATUS.get(ev(r)), ops=ev(ops_out.read(0)), fault=ev(ns.get_field(23)), out=outs, reads=world.reads)

    E.explore(body)
    if E.paths != 1:
        raise Inconclusive(f'concrete llsx run of {img["name"]} forked into {E.paths} paths')
    return out


def validate_executor(report: Report) -> None:
    core = native_replay.fresh_core()
    for img in IMAGES:
        try:
            got = run_ir_concrete(img)
        except (MemoryViolation, ir.IRError) as e:
            report.inconclusive.append(f'llsx validation: {img["name"]}: {type(e).__name__}: {e}')
            continue
        real = native_replay.run_native(core, img, {})
        same = all(got[k] == real[k] for k in ('status', 'ops', 'out', 'reads')) and (got['status'] != pyspec.MEMERR or got['fault'] == real['fault'])
        report.validation_runs += 1
        report.sample({'llsx_validation': img['name'], 'ir_result': got, 'fresh_native_build': {k: real[k] for k in ('status', 'ops', 'out', 'reads', 'fault')}})
        if not same:
            report.inconclusive.append(f'llsx executor disagrees with a fresh native build on {img["name"]}: IR {got} vs real {real}')
