"""Textual LLVM-14 IR (typed pointers) -> Python structures, for the subset clang emits for _fjcore.c.
An unknown construct raises IRError (the check then ends inconclusive: a future edit of the C file is never silently
mis-translated)."""
from __future__ import annotations

import re
import subprocess
from dataclasses import dataclass, field
from pathlib import Path
from typing import Any, Dict, List, Optional, Tuple


class IRError(Exception):
    pass


# ----------------------------------------------------------------------------------------------- types

@dataclass(frozen=True)
class Ty:
    kind: str                 # 'int' 'double' 'void' 'ptr' 'struct' 'array' 'func' 'opaque'
    bits: int = 0
    elem: Any = None          # ptr/array element type
    n: int = 0                # array length
    name: str = ''            # struct name

    def __repr__(self) -> str:
        return {'int': f'i{self.bits}', 'double': 'double', 'void': 'void', 'ptr': f'{self.elem!r}*', 'struct': self.name,
                'array': f'[{self.n} x {self.elem!r}]', 'func': 'fn', 'opaque': 'opaque'}[self.kind]


I1, I8, I32, I64 = Ty('int', 1), Ty('int', 8), Ty('int', 32), Ty('int', 64)
DOUBLE, VOID, FUNC = Ty('double'), Ty('void'), Ty('func')


class Types:
    def __init__(self) -> None:
        self.structs: Dict[str, Optional[List[Ty]]] = {}
        self._layout: Dict[str, Tuple[int, int, List[int]]] = {}

    def parse(self, s: str) -> Ty:
        t, rest = self._parse(s.strip())
        if rest.strip():
            raise IRError(f'trailing type text {rest!r} in {s!r}')
        return t

    def _parse(self, s: str) -> Tuple[Ty, str]:
        s = s.lstrip()
        m = re.match(r'i(\d+)', s)
        if m:
            t, s = Ty('int', int(m.group(1))), s[m.end():]
        elif s.startswith('double'):
            t, s = DOUBLE, s[6:]
        elif s.startswith('void'):
            t, s = VOID, s[4:]
        elif s.startswith('%'):
            m = re.match(r'%[A-Za-z0-9_.]+', s)
            assert m
            t, s = Ty('struct', name=m.group(0)), s[m.end():]
        elif s.startswith('['):
            m = re.match(r'\[(\d+) x ', s)
            if not m:
                raise IRError(f'bad array type {s[:40]!r}')
            el, rest = self._parse(s[m.end():])
            rest = rest.lstrip()
            if not rest.startswith(']'):
                raise IRError(f'bad array type {s[:40]!r}')
            t, s = Ty('array', elem=el, n=int(m.group(1))), rest[1:]
        elif s.startswith('{'):
            depth, i = 0, 0
            for i, ch in enumerate(s):
                depth += ch == '{'
                depth -= ch == '}'
                if depth == 0:
                    break
            t, s = Ty('struct', name='anon:' + s[:i + 1]), s[i + 1:]
        else:
            raise IRError(f'unknown type {s[:40]!r}')
        while True:
            s2 = s.lstrip()
            if s2.startswith('*'):
                t, s = Ty('ptr', elem=t), s2[1:]
            elif s2.startswith('('):           # function type: skip the balanced parameter list
                depth = 0
                for i, ch in enumerate(s2):
                    depth += ch == '('
                    depth -= ch == ')'
                    if depth == 0:
                        break
                t, s = FUNC, s2[i + 1:]
            else:
                return t, s

    def define_struct(self, name: str, body: str) -> None:
        body = body.strip()
        if body == 'opaque':
            self.structs[name] = None
            return
        assert body.startswith('{') and body.endswith('}'), body
        self.structs[name] = [self.parse(f) for f in split_top(body[1:-1])]

    def layout(self, t: Ty) -> Tuple[int, int, List[int]]:
        """(size, align, field offsets) with the x86-64 SysV rules"""
        if t.kind == 'int':
            n = max(1, (t.bits + 7) // 8)
            return n, n, []
        if t.kind in ('ptr', 'double', 'func'):
            return 8, 8, []
        if t.kind == 'array':
            sz, al, _ = self.layout(t.elem)
            return sz * t.n, al, []
        if t.kind == 'struct':
            if t.name in self._layout:
                return self._layout[t.name]
            fields = self.structs.get(t.name) if not t.name.startswith('anon:') else [self.parse(f) for f in split_top(t.name[6:-1])]
            if fields is None:
                raise IRError(f'layout of opaque/unknown struct {t.name}')
            off, maxal, offs = 0, 1, []
            for f in fields:
                sz, al, _ = self.layout(f)
                off = (off + al - 1) // al * al
                offs.append(off)
                off += sz
                maxal = max(maxal, al)
            size = (off + maxal - 1) // maxal * maxal
            self._layout[t.name] = (size, maxal, offs)
            return self._layout[t.name]
        raise IRError(f'no layout for {t!r}')

    def fields(self, t: Ty) -> List[Ty]:
        if t.name.startswith('anon:'):
            return [self.parse(f) for f in split_top(t.name[6:-1])]
        f = self.structs.get(t.name)
        if f is None:
            raise IRError(f'fields of opaque struct {t.name}')
        return f


def split_top(s: str) -> List[str]:
    """split on commas that are not nested in () [] {} <>"""
    out, depth, cur = [], 0, ''
    for ch in s:
        if ch in '([{':
            depth += 1
        elif ch in ')]}':
            depth -= 1
        if ch == ',' and depth == 0:
            out.append(cur.strip())
            cur = ''
        else:
            cur += ch
    if cur.strip():
        out.append(cur.strip())
    return out


# ----------------------------------------------------------------------------------------------- operands

@dataclass
class Op:
    """an operand: ('reg', name) | ('int', value) | ('null',) | ('global', name) | ('undef',) | ('fp', text)
       | ('cexpr', opcode, type info, operands)"""
    kind: str
    a: Any = None
    b: Any = None
    c: Any = None


ATTRS = {'noundef', 'nonnull', 'noalias', 'nocapture', 'readonly', 'writeonly', 'immarg', 'signext', 'zeroext', 'returned', 'inreg'}


class Parser:
    def __init__(self, types: Types):
        self.types = types

    def typed_operand(self, s: str) -> Tuple[Ty, Op]:
        """'i64 noundef %x' -> (type, operand)"""
        ty, rest = self.types._parse(s)
        toks = rest.strip()
        while True:
            m = re.match(r'(align \d+|dereferenceable\(\d+\)|dereferenceable_or_null\(\d+\)|[a-z]+)\s+', toks)
            if m and (m.group(1).split()[0] in ATTRS or m.group(1).startswith(('align', 'dereferenceable'))):
                toks = toks[m.end():]
            else:
                break
        return ty, self.operand(toks, ty)

    def operand(self, s: str, ty: Ty) -> Op:
        s = s.strip()
        if s.startswith('%'):
            return Op('reg', s)
        if s.startswith('@'):
            return Op('global', s)
        if s in ('null', 'zeroinitializer'):
            return Op('null')
        if s == 'undef' or s == 'poison':
            return Op('undef')
        if s == 'true':
            return Op('int', 1)
        if s == 'false':
            return Op('int', 0)
        if re.fullmatch(r'-?\d+', s):
            v = int(s)
            if ty.kind == 'int':
                v &= (1 << ty.bits) - 1
            return Op('int', v)
        if ty.kind == 'double':
            return Op('fp', s)
        m = re.match(r'(getelementptr|bitcast|ptrtoint|inttoptr)\b', s)
        if m:
            inner = s[s.index('(') + 1: s.rindex(')')]
            if m.group(1) == 'getelementptr':
                parts = split_top(inner)
                base_ty = self.types.parse(parts[0])
                ops = [self.typed_operand(p) for p in parts[1:]]
                return Op('cexpr', 'getelementptr', base_ty, ops)
            src, _, dst = inner.rpartition(' to ')
            sty, sop = self.typed_operand(src)
            return Op('cexpr', m.group(1), (sty, self.types.parse(dst)), [sop])
        raise IRError(f'unknown operand {s!r}')


# ----------------------------------------------------------------------------------------------- instructions

@dataclass
class Instr:
    op: str
    dest: Optional[str] = None
    ty: Any = None
    args: Any = None
    extra: Any = None
    text: str = ''


@dataclass
class Block:
    name: str
    instrs: List[Instr] = field(default_factory=list)


@dataclass
class Function:
    name: str
    ret: Ty
    params: List[Tuple[Ty, str]]
    blocks: Dict[str, Block] = field(default_factory=dict)
    order: List[str] = field(default_factory=list)
    text_hash: str = ''


BIN = {'add', 'sub', 'mul', 'and', 'or', 'xor', 'shl', 'lshr', 'ashr', 'urem', 'udiv', 'sdiv', 'srem'}
FBIN = {'fadd', 'fsub', 'fmul', 'fdiv'}
CAST = {'zext', 'sext', 'trunc', 'bitcast', 'ptrtoint', 'inttoptr', 'sitofp', 'uitofp', 'fptosi', 'fpext', 'fptrunc'}


class Module:
    def __init__(self, text: str):
        self.types = Types()
        self.p = Parser(self.types)
        self.functions: Dict[str, Function] = {}
        self.declares: Dict[str, str] = {}
        self.globals: Dict[str, Tuple[Ty, str, bool]] = {}     # name -> (type, initializer text, external)
        self._parse(text)

    def _parse(self, text: str) -> None:
        lines = text.split('\n')
        # pass 1: struct types (they may be used before they are defined)
        for ln in lines:
            m = re.match(r'(%[A-Za-z0-9_.]+) = type (.*)$', ln)
            if m:
                self.types.structs[m.group(1)] = None
        for ln in lines:
            m = re.match(r'(%[A-Za-z0-9_.]+) = type (.*)$', ln)
            if m:
                self.types.define_struct(m.group(1), m.group(2))
        i = 0
        while i < len(lines):
            ln = lines[i]
            if ln.startswith('@'):
                self._global(ln)
            elif ln.startswith('declare'):
                m = re.search(r'@([A-Za-z0-9_.]+)\(', ln)
                if m:
                    self.declares['@' + m.group(1)] = ln
            elif ln.startswith('define'):
                j = i
                while lines[j] != '}':
                    j += 1
                self._function(lines[i:j])
                i = j
            i += 1

    def _global(self, ln: str) -> None:
        m = re.match(r'(@[A-Za-z0-9_.$]+) = (.*)$', ln)
        if not m:
            return
        name, rest = m.group(1), m.group(2)
        external = ' external ' in ' ' + rest
        rest = re.sub(r'^(private|internal|external|dso_local|unnamed_addr|local_unnamed_addr|constant|global|common|hidden)\s+', '', rest)
        while True:
            new = re.sub(r'^(private|internal|external|dso_local|unnamed_addr|local_unnamed_addr|constant|global|common|hidden)\s+', '', rest)
            if new == rest:
                break
            rest = new
        rest = re.sub(r', align \d+.*$', '', rest)
        try:
            ty, init = self.types._parse(rest)
        except IRError:
            return
        self.globals[name] = (ty, init.strip(), external)

    def _function(self, lines: List[str]) -> None:
        import hashlib
        head = lines[0]
        m = re.match(r'define [^@]*?((?:%[A-Za-z0-9_.]+|i\d+|void|double)\**) @([A-Za-z0-9_.]+)\((.*)\) [^{]*\{', head)
        if not m:
            raise IRError(f'cannot parse function header {head[:120]!r}')
        ret = self.types.parse(m.group(1))
        params = []
        for p in split_top(m.group(3)):
            if p == '...':
                continue
            ty, op = self.p.typed_operand(p)
            params.append((ty, op.a))
        fn = Function('@' + m.group(2), ret, params, text_hash=hashlib.sha1('\n'.join(lines).encode()).hexdigest()[:12])
        cur: Optional[Block] = None
        i = 1
        while i < len(lines):
            ln = lines[i]
            i += 1
            if not ln.strip():
                continue
            m = re.match(r'([A-Za-z0-9_.$-]+):', ln)
            if m and not ln.startswith(' '):
                cur = Block(m.group(1))
                fn.blocks[cur.name] = cur
                fn.order.append(cur.name)
                continue
            if cur is None:
                raise IRError(f'instruction outside a block: {ln!r}')
            body = ln.split(' ;')[0].strip()
            body = re.sub(r', !llvm\.loop ![0-9]+', '', body)
            body = re.sub(r', !\w+ ![0-9]+', '', body)
            if body.startswith('switch') and body.endswith('['):
                while not lines[i].strip().startswith(']'):
                    body += ' ' + lines[i].strip()
                    i += 1
                body += ' ]'
                i += 1
            cur.instrs.append(self._instr(body))
        self.functions[fn.name] = fn

    def _instr(self, s: str) -> Instr:
        P = self.p
        dest = None
        m = re.match(r'(%[A-Za-z0-9_.]+) = (.*)$', s)
        if m:
            dest, s = m.group(1), m.group(2)
        op = s.split()[0]
        rest = s[len(op):].strip()
        if op in BIN:
            rest = re.sub(r'^((nuw|nsw|exact)\s+)+', lambda mm: '', rest)
            flags = [f for f in ('nuw', 'nsw', 'exact') if re.search(rf'\b{f}\b', s.split(rest)[0])]
            a, b = split_top(rest)
            ty, oa = P.typed_operand(a)
            return Instr(op, dest, ty, [oa, P.operand(b, ty)], flags, s)
        if op in FBIN:
            a, b = split_top(rest)
            ty, oa = P.typed_operand(a)
            return Instr(op, dest, ty, [oa, P.operand(b, ty)], None, s)
        if op == 'icmp':
            pred, rest2 = rest.split(None, 1)
            a, b = split_top(rest2)
            ty, oa = P.typed_operand(a)
            return Instr('icmp', dest, ty, [oa, P.operand(b, ty)], pred, s)
        if op == 'load':
            parts = split_top(rest)
            ty = self.types.parse(parts[0])
            _, ptr = P.typed_operand(parts[1])
            return Instr('load', dest, ty, [ptr], None, s)
        if op == 'store':
            parts = split_top(rest)
            ty, val = P.typed_operand(parts[0])
            _, ptr = P.typed_operand(parts[1])
            return Instr('store', None, ty, [val, ptr], None, s)
        if op == 'alloca':
            parts = split_top(rest)
            return Instr('alloca', dest, self.types.parse(parts[0]), [], None, s)
        if op == 'getelementptr':
            rest = re.sub(r'^inbounds\s+', '', rest)
            parts = split_top(rest)
            base_ty = self.types.parse(parts[0])
            ops = [P.typed_operand(p) for p in parts[1:]]
            return Instr('getelementptr', dest, base_ty, ops, None, s)
        if op in CAST:
            src, _, dst = rest.rpartition(' to ')
            sty, sop = P.typed_operand(src)
            return Instr(op, dest, self.types.parse(dst), [sop], sty, s)
        if op == 'select':
            c, a, b = split_top(rest)
            _, oc = P.typed_operand(c)
            ty, oa = P.typed_operand(a)
            _, ob = P.typed_operand(b)
            return Instr('select', dest, ty, [oc, oa, ob], None, s)
        if op == 'phi':
            ty, rest2 = self.types._parse(rest)
            inc = []
            for mm in re.finditer(r'\[\s*(.+?),\s*%([A-Za-z0-9_.$-]+)\s*\]', rest2):
                inc.append((P.operand(mm.group(1), ty), mm.group(2)))
            return Instr('phi', dest, ty, inc, None, s)
        if op == 'br':
            if rest.startswith('label'):
                return Instr('br', None, None, [], [rest.split('%')[1]], s)
            c, a, b = split_top(rest)
            _, oc = P.typed_operand(c)
            return Instr('br', None, None, [oc], [a.split('%')[1], b.split('%')[1]], s)
        if op == 'switch':
            m2 = re.match(r'(.+?), label %([A-Za-z0-9_.$-]+) \[(.*)\]', rest)
            assert m2, s
            ty, ov = P.typed_operand(m2.group(1))
            cases = [(int(c.group(1)) & ((1 << ty.bits) - 1), c.group(2)) for c in re.finditer(r'i\d+ (-?\d+), label %([A-Za-z0-9_.$-]+)', m2.group(3))]
            return Instr('switch', None, ty, [ov], (m2.group(2), cases), s)
        if op == 'ret':
            if rest == 'void':
                return Instr('ret', None, VOID, [], None, s)
            ty, ov = P.typed_operand(rest)
            return Instr('ret', None, ty, [ov], None, s)
        if op in ('call', 'tail', 'notail', 'musttail'):
            if op != 'call':
                rest = rest.split('call', 1)[1].strip()
            while True:
                new = re.sub(r'^(noundef|nonnull|noalias|signext|zeroext|fastcc|align \d+|dereferenceable(_or_null)?\(\d+\))\s+', '', rest)
                if new == rest:
                    break
                rest = new
            m2 = re.match(r'(.*?)\s*(@[A-Za-z0-9_.]+|%[A-Za-z0-9_.]+)\((.*)\)\s*(#\d+)?$', rest)
            if not m2:
                raise IRError(f'cannot parse call {s!r}')
            rty_text = m2.group(1).strip()
            rty_text = re.sub(r'\s*\(.*\)\s*\*?$', '', rty_text)       # drop an explicit function type
            rty = self.types.parse(rty_text)
            args = [P.typed_operand(a) for a in split_top(m2.group(3))]
            return Instr('call', dest, rty, args, m2.group(2), s)
        if op == 'unreachable':
            return Instr('unreachable', None, None, [], None, s)
        raise IRError(f'unknown instruction {s!r}')


def build_ir(c_file: Path, out_dir: Path, include: str) -> Path:
    """clang-14 -O0 (no optnone) -> opt-14 mem2reg+instcombine+simplifycfg; regenerated from the C source on every run"""
    raw, out = out_dir / 'raw.ll', out_dir / 'fj.ll'
    r = subprocess.run(['clang-14', '-S', '-emit-llvm', '-O0', '-Xclang', '-disable-O0-optnone', '-fno-discard-value-names',
                        f'-I{include}', str(c_file), '-o', str(raw)], capture_output=True, text=True)
    if r.returncode != 0:
        raise IRError(f'clang failed: {r.stderr[-400:]}')
    r = subprocess.run(['opt-14', '-S', '-mem2reg', '-instcombine', '-simplifycfg', str(raw), '-o', str(out)], capture_output=True, text=True)
    if r.returncode != 0:
        raise IRError(f'opt failed: {r.stderr[-400:]}')
    return out
