"""C19 native part: the device/API accessors Memory_get_word / Memory_set_word of _fjcore.c against the program's own accessor.

State: the symbolic Memory object of C01 (flat / hybrid / paged, symbolic segments, symbolic flat window) whose abstraction is
(valid, MA): a word inside a segment is represented by the flat array below the flat window and by its page above it / in paged
mode; page words below the flat window of a hybrid memory are STALE copies (arbitrary), words outside every segment arbitrary
device junk.

  get:      r = Memory_get_word(wa)                      =>  valid(wa) -> r == MA[wa]
  set/get:  Memory_set_word(wa, v); r = Memory_get_word(wb)   =>  wb == wa -> r == v & mask;  wb != wa and valid(wb) -> r == MA[wb]
  set/op:   Memory_set_word(wa, v); mem_read_word(wb, &out)    (the accessor every native run loop reads program words through)
                                                         =>  valid(wb) -> ok and out == (wb == wa ? v & mask : MA[wb])
"""
from __future__ import annotations

import time
from typing import Any, Dict, List, Optional, Tuple

import z3

from fjv import common
from fjv.common import Inconclusive, Report
from fjv.llsx import env, ir, native_replay
from fjv.llsx.interp import Machine, MemoryViolation, bv, is_c, simp
from fjv.pysym import Engine


def run_api(cfg: Dict[str, Any]) -> Dict[str, Any]:
    common.use_repo()
    w, mode, scen = cfg['w'], cfg['mode'], cfg['scenario']
    tag = f'native-api/{scen}/{mode}/w{w}'
    W = 2 * 64 + 16 if w == 64 else 80
    E = Engine(W, timeout_ms=240_000, max_paths=4000)
    E.fast_ms = 1000
    module = env.load_module()
    mask = (1 << w) - 1

    def body() -> None:
        M = Machine(module, E)
        world = env.World(M, n_inputs=1, env={})
        ns = env.NativeState(M, w, 2, mode)
        ns.install_get_page(world)
        WA, WB, V = z3.BitVec('WA', 64), z3.BitVec('WB', 64), z3.BitVec('V', 64)
        for n_, c_ in (('WA', WA), ('WB', WB), ('V', V)):
            E.inputs.setdefault(n_, c_)
        if cfg.get('page') is not None and mode != 'flat':
            # addresses on one configured page pair (keeps the page aliasing forks small); the offset inside the page is symbolic
            E._assume(z3.LShR(WA, env.PAGE_BITS) == cfg['page'])
            E._assume(z3.LShR(WB, env.PAGE_BITS) == cfg['page'] + cfg.get('page_delta', 0))
        else:
            E._assume(z3.ULT(WA, 1 << 24))
            E._assume(z3.ULT(WB, 1 << 24))
        E._refresh_model()
        pending: List[Any] = []
        returned: List[Any] = []

        def parse_tuple(args: Any, fmt: Any, *outs: Any) -> Any:
            vals = pending.pop(0)
            if len(vals) != len(outs):
                raise ir.IRError(f'PyArg_ParseTuple with {len(outs)} outputs, harness provided {len(vals)}')
            for p, v in zip(outs, vals):
                M.store(p, ir.I64, v)
            return 1

        def from_ull(v: Any) -> Any:
            returned.append(v)
            return M.ptr(world.new_pyobj(f'int{len(returned)}', 1))
        M.stubs['@_PyArg_ParseTuple_SizeT'] = parse_tuple
        M.stubs['@PyArg_ParseTuple'] = parse_tuple
        M.stubs['@PyLong_FromUnsignedLongLong'] = from_ull
        world.singleton('@_Py_NoneStruct')
        args = M.ptr(world.new_pyobj('args', 1))
        self_p = M.ptr(ns.self_obj)
        validA, validB = ns.valid(WA), ns.valid(WB)
        ma = lambda k: z3.ZeroExt(64 - w, z3.Select(ns.MA, k)) if w < 64 else z3.Select(ns.MA, k)  # noqa: E731
        items: List[Tuple[Any, str]] = []

        def get(addr: Any) -> Any:
            pending.append([addr])
            n0 = len(returned)
            r = M.call('@Memory_get_word', [self_p, args])
            if is_c(r) and r == 0:
                raise Inconclusive(f'{tag}: Memory_get_word returned NULL although allocation cannot fail in this harness')
            if len(returned) != n0 + 1:
                raise Inconclusive(f'{tag}: Memory_get_word did not build its result through PyLong_FromUnsignedLongLong')
            return bv(returned[-1], 64)
        if scen == 'get':
            r = get(WA)
            items.append((z3.Implies(validA, r == ma(WA)), f'{tag}: get_word of an in-segment word returns the program word'))
            E.witness('native-api:in-segment-read', validA)
            if mode == 'hybrid':
                E.witness('native-api:read-below-the-flat-window-of-a-straddling-segment',
                          z3.And(validA, z3.ULT(WA, ns.FC), z3.Or(*[z3.And(z3.ULE(s, WA), z3.ULT(WA, e), z3.UGT(e, ns.FC)) for s, e in ns.segs])))
                E.witness('native-api:read-above-the-flat-window', z3.And(validA, z3.UGE(WA, ns.FC)))
        else:
            pending.append([WA, V])
            r0 = M.call('@Memory_set_word', [self_p, args])
            if is_c(r0) and r0 == 0:
                raise Inconclusive(f'{tag}: Memory_set_word returned NULL')
            newv = V & mask
            if scen == 'set-get':
                r = get(WB)
                items.append((z3.Implies(WB == WA, r == newv), f'{tag}: get_word after set_word at the same address returns the written value'))
                items.append((z3.Implies(z3.And(WB != WA, validB), r == ma(WB)), f'{tag}: set_word leaves every other in-segment word unchanged'))
                E.witness('native-api:read-back', WB == WA)
            else:
                out = M.alloc(8, 'stack', 'word_out')
                ok = M.call('@mem_read_word', [self_p, WB, M.ptr(out)])
                okv = bv(ok, 32) if not is_c(ok) else z3.BitVecVal(ok, 32)
                got = bv(out.read(0), 64)
                items.append((z3.Implies(validB, okv == 0), f'{tag}: the program can read every in-segment word after a device write'))
                items.append((z3.Implies(z3.And(validB, WB == WA), got == newv), f'{tag}: a device write inside a segment is what the program reads next'))
                items.append((z3.Implies(z3.And(validB, WB != WA), got == ma(WB)), f'{tag}: a device write leaves the program\'s view of other words unchanged'))
                E.witness('native-api:program-reads-the-device-write', z3.And(validB, WB == WA))
                if mode == 'hybrid':
                    E.witness('native-api:write-below-the-flat-window-of-a-straddling-segment',
                              z3.And(validA, z3.ULT(WA, ns.FC), z3.Or(*[z3.And(z3.ULE(s, WA), z3.ULT(WA, e), z3.UGT(e, ns.FC)) for s, e in ns.segs])))

        def detail(m: Any) -> Dict[str, Any]:
            ev = lambda t: m.eval(t, model_completion=True).as_long()  # noqa: E731
            segs = [[ev(s), ev(e)] for s, e in ns.segs]
            return {'segments': segs, 'flat_count': ev(ns.FC) if mode != 'paged' else None, 'wa': ev(WA), 'wb': ev(WB), 'v': ev(V),
                    'word_at_wa': ev(z3.Select(ns.MA, WA)), 'word_at_wb': ev(z3.Select(ns.MA, WB))}
        prefer = [ns.segs[0][0] == 0, z3.UGE(ns.segs[0][1], 16), z3.UGE(WA, 8), z3.UGE(WB, 8), z3.ULT(WA, 1 << (w - w.bit_length() + 1 if w < 64 else 40))]
        E.prove_all(items, detail=detail, prefer=prefer)

    t0 = time.time()
    incon: List[str] = []
    try:
        E.explore(body)
    except Inconclusive as e:
        incon.append(f'{tag}: {e}')
    except (MemoryViolation, ir.IRError) as e:
        incon.append(f'{tag}: {type(e).__name__}: {e}')
    viol, replayed, seen = [], 0, set()
    for f in E.failed:
        key = f['label'].split(': ')[-1]
        if key in seen:
            continue
        seen.add(key)
        replayed += 1
        case = {'native': True, 'cfg': cfg, 'label': f['label'], **(f['detail'] or {})}
        rep = replay_case(case)
        if rep.get('differs'):
            viol.append({'label': f['label'], 'signature': f'native-api:{scen}:{mode}:{key[:60]}', 'replay': common.write_replay('C19', tag + key[:20], case), 'detail': rep})
        else:
            incon.append(f"{f['label']}: counterexample did not reproduce on a fresh build: {str(rep)[:300]}")
    return {'configs': 1, **E.stats(), 'samples': [], 'violations': viol, 'inconclusive': incon, 'replayed': replayed,
            'harnesses': {tag: {'paths': E.paths, 'queries': sum(E.q.values()), 'wall_s': round(time.time() - t0, 2)}}}


def _child(case: Dict[str, Any], q: Any) -> None:
    try:
        import os
        common.use_repo()
        cfg = case['cfg']
        if cfg['mode'] == 'paged':
            os.environ['FLIPJUMP_NO_FLAT'] = '1'
        else:
            os.environ.pop('FLIPJUMP_NO_FLAT', None)
        core = native_replay.fresh_core()
        w = cfg['w']
        kwargs: Dict[str, Any] = {}
        if cfg['mode'] == 'hybrid' and case.get('flat_count'):
            kwargs['flat_max_words'] = case['flat_count']
        mem = core.Memory(w, **kwargs)
        for s, e in case['segments']:
            mem.add_segment(s, e - s)
        mask = (1 << w) - 1
        valid = lambda a: any(s <= a < e for s, e in case['segments'])  # noqa: E731
        wa, wb, v = case['wa'], case['wb'], case['v']
        scen = cfg['scenario']
        if not valid(wa) or wa * w >= (1 << w):
            q.put({'differs': False, 'what': 'the counterexample address is outside every segment / the program address space: not replayable by a program'})
            return
        # a one-op program that flips bit 0 of word wa and halts: the stale copy and the live word then differ
        opw = None
        for s, e in case['segments']:
            for cand in range(max(s, 4), min(e - 1, max(s, 4) + 64)):
                if valid(cand + 1) and not {cand, cand + 1} & {wa, wb} and (cand + 1) * w < (1 << w):
                    opw = cand
                    break
            if opw is not None:
                break
        if opw is None:
            q.put({'differs': False, 'what': 'no room for the replay op in the counterexample segments'})
            return
        image = {opw: wa * w, opw + 1: opw * w}
        for a, val in ((wa, case['word_at_wa']), (wb, case['word_at_wb'])):
            if valid(a):
                image[a] = val & mask
        for a, val in image.items():
            mem.set_word(a, val)

        def run_op() -> None:
            out: List[bool] = []
            cause, ops, err, _, _ = mem.run(lambda: False, out.append, EOFError, start_ip=opw * w)
            if cause != 0 or ops != 1:
                raise RuntimeError(f'replay program ended with cause {cause} after {ops} ops (fault {err})')
            image[wa] ^= 1
        what = []
        run_op()
        if scen == 'get':
            if mem.get_word(wa) != image[wa]:
                what.append(f'after the program flipped bit 0 of word {wa}: get_word = {mem.get_word(wa)}, the program word is {image[wa]}')
        else:
            mem.set_word(wa, v)
            image[wa] = v & mask
            run_op()
            if mem.get_word(wa) != image[wa]:
                what.append(f'set_word({wa}, {v & mask}) then a program flip of its bit 0: get_word = {mem.get_word(wa)}, expected {image[wa]} '
                            f'(the program did not see the device write, or the device does not see the program)')
            if wb != wa and valid(wb) and mem.get_word(wb) != image[wb]:
                what.append(f'get_word({wb}) = {mem.get_word(wb)}, expected {image[wb]}')
        q.put({'differs': bool(what), 'what': '; '.join(what) or 'as documented', 'storage': mem.storage_mode})
    except Exception:  # noqa: BLE001
        import traceback
        q.put({'differs': False, 'error': traceback.format_exc()[-500:]})


def replay_case(case: Dict[str, Any], timeout: int = 60) -> Dict[str, Any]:
    import multiprocessing as mp
    ctx = mp.get_context('spawn')
    q = ctx.Queue()
    p = ctx.Process(target=_child, args=(case, q))
    p.start()
    try:
        rep = q.get(timeout=timeout)
    except Exception:  # noqa: BLE001
        rep = {'differs': False, 'why': 'no result from the replay child'}
    p.join(5)
    if p.is_alive():
        p.kill()
    return rep


def replay(case: Dict[str, Any]) -> int:
    import json
    rep = replay_case(case)
    print(json.dumps(rep, indent=1, default=str))
    return 1 if rep.get('differs') else 0


def configs(tier: str) -> List[Dict[str, Any]]:
    out = []
    for scen in ('get', 'set-get', 'set-op'):
        for mode in ('flat', 'hybrid', 'paged'):
            for w in ((16, 64) if tier == 'quick' else (8, 16, 32, 64)):
                c = {'w': w, 'mode': mode, 'scenario': scen}
                if mode != 'flat':
                    c['page'] = 0 if mode == 'hybrid' else 3
                out.append(c)
                if mode != 'flat' and scen != 'get' and tier == 'thorough':
                    out.append(dict(c, page_delta=1))
    return out


def run(report: Report, tier: str, only: Optional[str] = None) -> None:
    module = env.load_module()
    for name in ('@Memory_get_word', '@Memory_set_word', '@mem_read_word', '@flat_seg_contains', '@page_compute_validity', '@page_cache_fill'):
        fn = module.functions[name]
        report.functions.append({'name': name.lstrip('@'), 'file': 'flipjump/interpreter/_fjcore.c (LLVM IR, clang-14)', 'ir_sha1': fn.text_hash,
                                 'blocks': len(fn.blocks)})
    report.stub(*env.STUBS_TEXT)
    report.stub('PyArg_ParseTuple -> stores the harness\'s symbolic 64-bit arguments; PyLong_FromUnsignedLongLong -> records the value',
                'mem_get_page -> contract model (see C01): a page word represents the program word only where the flat array does not '
                '(above the flat window / paged mode); below the window of a hybrid memory it is an arbitrary stale value')
    cfgs = configs(tier)
    if only:
        cfgs = [c for c in cfgs if only in f"native-api/{c['scenario']}/{c['mode']}/w{c['w']}"]
    (report.require_witnesses if not only else (lambda *a: None))('native-api:in-segment-read', 'native-api:read-back', 'native-api:program-reads-the-device-write',
                             'native-api:read-below-the-flat-window-of-a-straddling-segment', 'native-api:read-above-the-flat-window',
                             'native-api:write-below-the-flat-window-of-a-straddling-segment')
    common.run_pool(run_api, cfgs, report)
