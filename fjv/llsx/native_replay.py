"""Replaying native counterexamples on a FRESH build of the current _fjcore.c (never the prebuilt .so in the tree)."""
from __future__ import annotations

import hashlib
import importlib.util
import json
import multiprocessing as mp
import os
import subprocess
import sys
import sysconfig
from pathlib import Path
from typing import Any, Dict, List, Optional, Tuple

from fjv import common, pyspec

_CORE: Dict[str, Any] = {}


def fresh_core(sanitize: bool = False) -> Any:
    src = common.REPO / 'flipjump' / 'interpreter' / '_fjcore.c'
    h = hashlib.sha1(src.read_bytes()).hexdigest()[:12] + ('-asan' if sanitize else '')
    if h in _CORE:
        return _CORE[h]
    d = common.run_root() / f'core-{h}'
    d.mkdir(parents=True, exist_ok=True)
    so = d / '_fjcore.so'
    if not so.exists():
        cmd = ['clang-14', '-shared', '-fPIC', '-O1', '-g', f'-I{sysconfig.get_paths()["include"]}', str(src), '-o', str(so)]
        if sanitize:
            cmd[1:1] = ['-fsanitize=address,undefined', '-fno-omit-frame-pointer']
        r = subprocess.run(cmd, capture_output=True, text=True)
        if r.returncode != 0:
            raise RuntimeError(f'fresh build of _fjcore.c failed: {r.stderr[-500:]}')
    spec = importlib.util.spec_from_file_location('_fjcore', so)
    assert spec and spec.loader
    mod = importlib.util.module_from_spec(spec)
    spec.loader.exec_module(mod)
    _CORE[h] = mod
    return mod


def run_native(core: Any, img: Dict[str, Any], cfg: Dict[str, Any]) -> Dict[str, Any]:
    """build the image through the extension's own API and run it from img['ip']"""
    w = img['w']
    kwargs: Dict[str, Any] = {}
    if cfg.get('mode') == 'hybrid' and img.get('flat_count'):
        kwargs['flat_max_words'] = img['flat_count']
    if cfg.get('mode') == 'paged':
        os.environ['FLIPJUMP_NO_FLAT'] = '1'
    else:
        os.environ.pop('FLIPJUMP_NO_FLAT', None)
    if cfg.get('loop') == 'run_measured_loop':
        os.environ['FLIPJUMP_MEASURE_SPECULATION'] = '1'
    else:
        os.environ.pop('FLIPJUMP_MEASURE_SPECULATION', None)
    mem = core.Memory(w, **kwargs)
    for s, e in img['segments']:
        mem.add_segment(s, e - s)
    for k, v in img['words'].items():
        mem.set_word(int(k), v)
    out: List[bool] = []
    reads = [0]

    class EOFx(Exception):
        pass

    def read_bit() -> bool:
        i = reads[0]
        reads[0] += 1
        if i >= len(img['inputs']) or not img['inputs'][i][0]:
            raise EOFx()
        return img['inputs'][i][1]

    def write_bit(b: bool) -> None:
        out.append(bool(b))
    try:
        cause, ops, err, last_ops, paused = mem.run(read_bit, write_bit, EOFx, last_ops_length=cfg.get('ring', 0), start_ip=img['ip'])
        res = {'status': {0: pyspec.LOOPING, 1: pyspec.EOF, 2: pyspec.NULLIP, 3: pyspec.MEMERR}[cause], 'ops': ops, 'fault': err,
               'out': out, 'reads': reads[0], 'last_ops': list(last_ops), 'storage': mem.storage_mode}
    except Exception as e:  # noqa: BLE001
        res = {'status': f'exception {type(e).__name__}: {e}', 'out': out, 'reads': reads[0]}
    res['final'] = {}
    for k in img['words']:
        try:
            res['final'][k] = mem.get_word(int(k))
        except Exception:  # noqa: BLE001
            pass
    return res


def run_reference(img: Dict[str, Any], max_ops: int = 200_000) -> Dict[str, Any]:
    w = img['w']
    words = {int(k): v for k, v in img['words'].items()}
    segs = img['segments']

    class SegMem(pyspec.DictMem):
        def valid(self, wa: int) -> bool:
            return any(s <= wa < e for s, e in segs)
    mem = SegMem(words, [])
    bits = []
    for av, b in img['inputs']:
        if not av:
            break
        bits.append(b)
    io = pyspec.ListIO(bits)
    ip, ops, status, extra, started = img['ip'], 0, pyspec.CONTINUE, None, []
    while ops < max_ops:
        started.append(ip)
        status, extra, counted = pyspec.step(w, mem, io, ip)
        ops += 1 if counted else 0
        if status != pyspec.CONTINUE:
            break
        ip = extra
    return {'status': status if status != pyspec.CONTINUE else 'still running', 'ops': ops, 'fault': extra if status == pyspec.MEMERR else None,
            'out': io.out, 'reads': io.reads, 'final': {str(k): mem.words.get(k, 0) for k in words}, 'started': started}


def _child(case: Dict[str, Any], q: Any) -> None:
    try:
        common.use_repo()
        cfg = case['cfg']
        env_set = cfg.get('env') or {}
        for k, v in env_set.items():
            if v is not None:
                os.environ[k] = v
        core = fresh_core()
        img = case['image']
        q.put('started')
        real = run_native(core, img, cfg)
        want = run_reference(img)
        differs, why = _compare(real, want, cfg)
        if not differs:
            # the one-op harness starts from an ARBITRARY loop-header state; a state that only a previous op can set up (cached
            # pointers, speculation registers) is reached concretely by running an aligned trampoline op first
            img2 = with_trampoline(img)
            if img2 is not None:
                real2, want2 = run_native(core, img2, cfg), run_reference(img2)
                d2, why2 = _compare(real2, want2, cfg)
                if d2:
                    q.put({'differs': True, 'fields': why2, 'real': real2, 'reference': {k: v for k, v in want2.items() if k != 'started'},
                           'image': img2, 'note': 'reproduced with an aligned trampoline op in front of the counterexample op'})
                    return
        if not differs and cfg.get('signals'):
            # a counterexample about the state at an interrupt: no one-op image reaches the signal poll (it runs every 2^k ops);
            # exercise the poll concretely and check that the reported op count is the number of ops whose effects are in memory
            rep = interrupt_scenario(core, cfg)
            if rep.get('differs'):
                q.put(rep)
                return
        q.put({'differs': differs, 'fields': why, 'real': real, 'reference': {k: v for k, v in want.items() if k != 'started'}, 'image': img})
    except Exception:  # noqa: BLE001
        import traceback
        q.put({'differs': False, 'error': traceback.format_exc()[-600:]})


def interrupt_scenario(core: Any, cfg: Dict[str, Any], seconds: float = 0.4) -> Dict[str, Any]:
    """a 3-op cycle, op k flips bit k of a data word (a 6-phase counter of executed ops), no IO; SIGALRM raises KeyboardInterrupt
    through PyErr_CheckSignals inside the native loop; the reported op count must be in phase with the memory"""
    import signal
    w = cfg['w']
    if cfg.get('mode') == 'paged':
        os.environ['FLIPJUMP_NO_FLAT'] = '1'
    else:
        os.environ.pop('FLIPJUMP_NO_FLAT', None)
    if cfg.get('loop') == 'run_measured_loop':
        os.environ['FLIPJUMP_MEASURE_SPECULATION'] = '1'
    else:
        os.environ.pop('FLIPJUMP_MEASURE_SPECULATION', None)
    mem = core.Memory(w)
    mem.add_segment(0, 12)
    X = 10
    for k in range(3):
        mem.set_word(4 + 2 * k, X * w + k)                    # flip bit k of word X
        mem.set_word(5 + 2 * k, (4 + 2 * ((k + 1) % 3)) * w)  # jump to the next op of the cycle
    mem.set_word(X, 0)

    def on_alarm(signum: int, frame: Any) -> None:
        raise KeyboardInterrupt()
    old = signal.signal(signal.SIGALRM, on_alarm)
    signal.setitimer(signal.ITIMER_REAL, seconds)
    interrupted = False
    try:
        mem.run(lambda: False, lambda b: None, EOFError, last_ops_length=cfg.get('ring', 0), start_ip=4 * w)
    except KeyboardInterrupt:
        interrupted = True
    finally:
        signal.setitimer(signal.ITIMER_REAL, 0)
        signal.signal(signal.SIGALRM, old)
    if not interrupted:
        return {'differs': False, 'why': 'the interrupt scenario ended without an interrupt'}
    ops = mem.last_run_op_count
    bits = mem.get_word(X) & 7
    phases = {0: 0b000, 1: 0b001, 2: 0b011, 3: 0b111, 4: 0b110, 5: 0b100}      # bit k = parity of the executions of op k
    ok = phases[ops % 6] == bits
    return {'differs': not ok, 'fields': ['ops'] if not ok else [], 'scenario': 'interrupt (SIGALRM -> KeyboardInterrupt at the signal poll) '
            'of a 3-op cycle that counts its ops in memory', 'reported_ops': ops, 'reported_ops_mod_6': ops % 6,
            'memory_phase_bits': bits, 'phase_bits_for_that_count': phases[ops % 6], 'storage': mem.storage_mode}


def with_trampoline(img: Dict[str, Any]) -> Optional[Dict[str, Any]]:
    w = img['w']
    used = {int(k) for k in img['words']}
    segs = img['segments']
    valid = lambda a: any(s <= a < e for s, e in segs)  # noqa: E731
    fc = img.get('flat_count') or (1 << 62)
    for s, e in segs:
        for tw in range(max(s, 4), min(e - 1, max(s, 4) + 4096)):
            if valid(tw + 1) and tw + 1 < fc and not {tw, tw + 1} & used and (tw + 2) * w < (1 << w) and img['ip'] >= 2 * w:
                words = dict(img['words'])
                words[str(tw)] = tw * w + (w - 1)          # flips the top bit of its own flip word (after fetching it): harmless
                words[str(tw + 1)] = img['ip']
                return dict(img, words=words, ip=tw * w)
    return None


def _compare(real: Dict[str, Any], want: Dict[str, Any], cfg: Dict[str, Any]) -> Tuple[bool, List[str]]:
    differs = False
    why: List[str] = []
    for k in ('status', 'ops', 'out', 'reads'):
        if real.get(k) != want.get(k):
            differs = True
            why.append(k)
    if real.get('status') == want.get('status') == pyspec.MEMERR and real.get('fault') != want.get('fault'):
        differs = True
        why.append('fault')
    for k, v in want['final'].items():
        if k in real.get('final', {}) and real['final'][k] != v and isinstance(real.get('status'), int):
            differs = True
            why.append(f'word {k}')
    if cfg.get('ring') and isinstance(real.get('status'), int):
        L = cfg['ring']
        if real.get('last_ops') != want['started'][-L:]:
            differs = True
            why.append('last_ops')
    return differs, why


def replay_case(case: Dict[str, Any], timeout: int = 60) -> Dict[str, Any]:
    """in a child process (a wrong engine may crash or spin)"""
    ctx = mp.get_context('spawn')
    q = ctx.Queue()
    p = ctx.Process(target=_child, args=(case, q))
    p.start()
    p.join(timeout)
    msgs = []
    while True:
        try:
            msgs.append(q.get(timeout=0.5 if not p.is_alive() else 0.01))
        except Exception:  # noqa: BLE001
            break
    started = 'started' in msgs
    results = [m_ for m_ in msgs if isinstance(m_, dict)]
    if p.is_alive():
        p.kill()
        if started:
            ref = run_reference(case['image'])
            if ref['status'] != 'still running':
                return {'differs': True, 'why': f'the engine is still running after {timeout}s, the reference ends after {ref["ops"]} ops '
                                                f'with status {ref["status"]}', 'reference': {k: v for k, v in ref.items() if k != 'started'},
                        'image': case.get('image')}
        return {'differs': False, 'why': f'replay did not finish in {timeout}s'}
    if results:
        return results[-1]
    if started and p.exitcode not in (0, None):
        return {'differs': True, 'why': f'the fresh engine build crashed (exit {p.exitcode}) on the replay image', 'image': case.get('image')}
    return {'differs': False, 'why': f'no result from the replay child (exit {p.exitcode})'}


def replay(case: Dict[str, Any]) -> int:
    rep = replay_case(case)
    print(json.dumps(rep, indent=1, default=str))
    return 1 if rep.get('differs') else 0
