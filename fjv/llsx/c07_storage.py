"""C07 / C11 (native part): the code that BUILDS the storage the run loops work on - mem_decide_storage, Memory_add_segment,
Memory_set_words - executed from the LLVM IR on symbolic Memory objects.

The op-step harnesses (c01_native) start from a Memory that satisfies a representation invariant (flat: flat[k] holds the program
word for in-segment k and the fill constant in gaps, flat_count = the clamped maximum segment end, flat_covers_all <=> no segment
reaches beyond the window).  That invariant is an ASSUMPTION there; here it is an OBLIGATION on the code that establishes it:

  decide       mem_decide_storage on a not-yet-decided Memory: symbolic UNSORTED disjoint segments (anywhere in 64 bits), a
               symbolic flat-window limit 1..Lmax words (the constructor knob flat_max_words), a real 2-slot page table whose
               pages (symbolic indices, arbitrary loaded words) hold the image loaded so far.  Post: error <=> no segment starts
               below the limit; otherwise flat_count = max over segments of min(end, limit), flat_covers_all <=> max end <=
               flat_count, and for EVERY index k < flat_count: flat[k] == (k in a segment ? the loaded word : the fill constant);
               pages and page table untouched; with a failing malloc / FLIPJUMP_NO_FLAT=1 / the test knob: paged, nothing changed.
               Plus the linking facts the op-step harness assumes (flat: flat_count == max end; hybrid: the window ends inside a
               segment that starts below it and some segment reaches beyond it).
  add-segment  Memory_add_segment(start, length) with arbitrary 64-bit arguments on a Memory with n segments (capacity full or
               not, realloc may fail) and one allocated page: ValueError <=> start + length overflows 64 bits; on success the set
               of valid words grows by exactly [start, start+length), and every allocated page's fast-path range is sound (inside
               one segment); qsort is a 3-element sorting network over the REAL segment_compare.
  init         Memory_init with arbitrary (width, garbage_stop, flat_max_words) on a fresh object and on a LIVE one that owns a segment
               table, a page table with a page, a flat array and a warm page cache: accepted <=> width in {8,16,32,64}; after either
               outcome the object is consistent (a NULL table goes with a zero count, non-NULL tables are live, no cached page
               pointer dangles); an accepted re-init frees every owned block exactly once.
  set-words    Memory_set_words(start, [v0..v(n-1)]) in flat and paged storage, arbitrary start, items that may fail to convert:
               rejected with ValueError <=> the range overflows or (flat) reaches beyond flat_count - before any store; stores
               hit exactly start+i with v_i & mask, in order; the sequence and its items are released exactly once.

Every load/store/memset/memcpy of the IR carries the bounds/liveness obligations of interp.py (C11).
Counterexamples are replayed on a fresh build through the extension's own API (Memory(...), add_segment, set_word, run, get_word).
"""
from __future__ import annotations

import time
from typing import Any, Dict, List, Optional, Tuple

import z3

from fjv import common
from fjv.common import Inconclusive, Report
from fjv.llsx import env, ir, native_replay
from fjv.llsx.interp import Machine, MemoryViolation, bv, is_c, simp
from fjv.pysym import Engine

# field indices of struct MemoryObject (cross-checked against the IR type by RawMemory.__init__)
F = {'w': 1, 'ww': 2, 'word_mask': 3, 'garbage_stop': 4, 'slots': 5, 'slot_count': 6, 'slots_used': 7, 'cache_key': 8, 'cache_page': 9,
     'cache_words': 10, 'cache_vs': 11, 'cache_ve': 12, 'segments': 13, 'segment_count': 14, 'segment_capacity': 15, 'segments_sorted': 16,
     'flat': 17, 'flat_count': 18, 'flat_max_words': 19, 'storage_decided': 20, 'flat_covers_all': 21, 'mem_error': 22}
I32_FIELDS = {'w', 'ww', 'garbage_stop', 'segments_sorted', 'storage_decided', 'flat_covers_all', 'mem_error'}


class RawMemory:
    """a MemoryObject built field by field (the state BEFORE the storage decision)"""

    def __init__(self, M: Machine, w: int):
        self.M, self.w = M, w
        T = M.m.types
        MO = ir.Ty('struct', name='%struct.MemoryObject')
        self.offs = T.layout(MO)[2]
        fields = T.fields(MO)
        if fields[F['flat']].kind != 'ptr' or fields[F['segments']].kind != 'ptr' or fields[F['cache_key']].kind != 'array':
            raise ir.IRError('struct MemoryObject no longer has the field order this harness was written for')
        self.obj = M.alloc(T.layout(MO)[0], 'pyobj', 'self', zero=True)
        self.obj.write(0, 1)
        self.set('w', w)
        self.set('ww', w.bit_length() - 1)
        self.set('word_mask', (1 << w) - 1)
        self.set('garbage_stop', 1)
        self.set('segments_sorted', 1)

    def set(self, name: str, v: Any) -> None:
        self.M.store(self.M.ptr(self.obj, self.offs[F[name]]), ir.I32 if name in I32_FIELDS else ir.I64, v)

    def get(self, name: str) -> Any:
        return self.M.load(self.M.ptr(self.obj, self.offs[F[name]]), ir.I32 if name in I32_FIELDS else ir.I64)

    @property
    def ptr(self) -> Any:
        return self.M.ptr(self.obj)


def umax(xs: List[Any]) -> Any:
    r = xs[0]
    for x in xs[1:]:
        r = z3.If(z3.UGT(x, r), x, r)
    return r


def sym_segments(E: Engine, n: int, *, sorted_: bool = False, prefix: str = 'seg') -> List[Tuple[Any, Any]]:
    """n non-empty pairwise disjoint segments, in arbitrary order unless sorted_"""
    segs = [(z3.BitVec(f'{prefix}{i}_start', 64), z3.BitVec(f'{prefix}{i}_end', 64)) for i in range(n)]
    for i, (s, e) in enumerate(segs):
        E.inputs.setdefault(f'{prefix}{i}_start', s)
        E.inputs.setdefault(f'{prefix}{i}_end', e)
        E.base.append(z3.ULT(s, e))
        for j in range(i):
            s2, e2 = segs[j]
            E.base.append(z3.ULE(e2, s) if sorted_ else z3.Or(z3.ULE(e, s2), z3.ULE(e2, s)))
    for c in E.base:
        E.solver.add(c)
    return segs


def valid_in(segs: List[Tuple[Any, Any]], k: Any) -> Any:
    return z3.Or(*[z3.And(z3.ULE(s, k), z3.ULT(k, e)) for s, e in segs]) if segs else z3.BoolVal(False)


def make_pages(M: Machine, rm: RawMemory, keys: List[Any], w: int) -> Tuple[Any, List[Any], List[Any]]:
    """a real page table of len(keys) slots (power of two); slot i holds key_plus1 = keys[i] (0 = empty) and a Page whose words are
    an arbitrary array PW_i of w-bit values (what set_word / set_words stored there; never-written words are 0 in the real thing,
    an arbitrary value here is a superset)"""
    slots = M.alloc(16 * len(keys), 'heap', 'slots')
    pws, words_objs = [], []
    for i, k in enumerate(keys):
        PW = z3.Array(f'PW{i}', z3.BitVecSort(64), z3.BitVecSort(w))
        M.E.inputs.setdefault(f'PW{i}', PW)
        words = M.alloc(env.PAGE_WORDS * 8, 'heap', f'page_words{i}',
                        base=(lambda PW_: (lambda idx: z3.ZeroExt(64 - w, z3.Select(PW_, idx)) if w < 64 else z3.Select(PW_, idx)))(PW))
        page = M.alloc(24, 'heap', f'page{i}', zero=True)
        page.write(0, M.ptr(words))
        slots.write(2 * i, k)
        slots.write(2 * i + 1, M.ptr(page))
        pws.append(PW)
        words_objs.append((page, words))
    rm.set('slots', M.ptr(slots))
    rm.set('slot_count', len(keys))
    rm.set('slots_used', len(keys))
    return slots, pws, words_objs


def loaded_word(keys: List[Any], pws: List[Any], k: Any, w: int) -> Any:
    """the image word at word address k before the decision: what the page table holds (0 when its page was never allocated)"""
    pi, off = z3.LShR(k, env.PAGE_BITS), k & (env.PAGE_WORDS - 1)
    v = z3.BitVecVal(0, w)
    for key, PW in reversed(list(zip(keys, pws))):
        v = z3.If(z3.And(key != 0, key - 1 == pi), z3.Select(PW, off), v)
    return v


def install_qsort(M: Machine) -> None:
    """qsort(base, n, 16, cmp): insertion sort by adjacent exchanges, every comparison through the REAL comparator IR; n <= 4"""
    def qsort(base: Any, n: Any, size: Any, cmp: Any) -> None:
        if not (is_c(n) and is_c(size)) or size != 16 or n > 4:
            raise Inconclusive('qsort stub: only up to 4 concrete-count 16-byte elements')
        o, _ = M.resolve(cmp)
        name = o.meta.get('function')
        if name is None:
            raise MemoryViolation('qsort comparator is not a function')
        for i in range(1, n):
            for j in range(i, 0, -1):
                pa, pb = M.gep(ir.I64, base, [(ir.I64, 2 * (j - 1))]), M.gep(ir.I64, base, [(ir.I64, 2 * j)])
                r = M.call(name, [pa, pb])
                gt = (r != 0 and not (r >> 31)) if is_c(r) else M.E.branch(bv(r, 32) > 0)
                if not gt:
                    break
                for c in (0, 1):
                    qa, qb = M.gep(ir.I64, pa, [(ir.I64, c)]), M.gep(ir.I64, pb, [(ir.I64, c)])
                    a, b = M.load(qa, ir.I64), M.load(qb, ir.I64)
                    M.store(qa, ir.I64, b)
                    M.store(qb, ir.I64, a)
    M.stubs['@qsort'] = qsort


# =============================================================================================== mem_decide_storage

def run_decide(cfg: Dict[str, Any]) -> Dict[str, Any]:
    common.use_repo()
    w, nsegs, lmax = cfg['w'], cfg['nsegs'], cfg['lmax']
    envv = cfg.get('env', {})
    tag = f"native-storage/decide/w{w}/segs{nsegs}/pages{cfg.get('pages', 2)}/L{cfg.get('lmin', 1)}-{lmax}" + ('/alloc-fail' if cfg.get('alloc_fail') else '') + \
          ''.join(f'/{k}' for k in envv)
    E = Engine(80, timeout_ms=120_000, max_paths=60000)
    E.fast_ms = 1000
    module = env.load_module()
    garbage = env.GARBAGE_SENTINEL if w <= 32 else env.FLAT_GARBAGE_MAGIC
    mem_viol: List[Dict[str, Any]] = []

    def body() -> None:
        M = Machine(module, E)
        world = env.World(M, n_inputs=0, alloc_fail=bool(cfg.get('alloc_fail')), env=envv)
        rm = RawMemory(M, w)
        segs = sym_segments(E, nsegs)
        L = z3.BitVec('FLAT_MAX_WORDS', 64)
        K = [z3.BitVec(f'PAGEKEY{i}', 64) for i in range(2)]
        IDX = z3.BitVec('IDX', 64)
        for t in [L, IDX] + K:
            E.inputs.setdefault(str(t), t)
        for c in (z3.UGE(L, cfg.get('lmin', 1)), z3.ULE(L, lmax), z3.Or(K[0] == 0, K[1] == 0, K[0] != K[1]),
                  z3.ULE(K[0], 1 << 50), z3.ULE(K[1], 1 << 50)):
            E._assume(c)
        if cfg.get('pages', 2) < 2:
            E._assume(K[1] == 0)          # one allocated page at most (keeps the forks of the larger segment tables in reach)
        E._refresh_model()
        segobj = M.alloc(16 * 8, 'heap', 'segments')
        for i, (s, e) in enumerate(segs):
            segobj.write(2 * i, s)
            segobj.write(2 * i + 1, e)
        rm.set('segments', M.ptr(segobj))
        rm.set('segment_count', nsegs)
        rm.set('segment_capacity', 8)
        rm.set('segments_sorted', 0)
        rm.set('flat_max_words', L)
        slots, pws, pages = make_pages(M, rm, K, w)
        install_qsort(M)
        # the fast-path range of every allocated page is what the REAL page_compute_validity gives for this segment table (as in a
        # real history: pages are allocated by set_word(s) after the add_segment calls; this sorts the table when a page exists)
        for key, (page, _) in zip(K, pages):
            if E.branch(key != 0):
                M.call('@page_compute_validity', [rm.ptr, simp(key - 1), M.ptr(page)])
        n_seg_stores = len(segobj.stores)
        segs = [(bv(segobj.read(2 * i), 64), bv(segobj.read(2 * i + 1), 64)) for i in range(nsegs)]
        det = lambda m: decide_detail(m, segs, L, K, pws, IDX, w)  # noqa: E731
        try:
            r = M.call('@mem_decide_storage', [rm.ptr])
        except MemoryViolation as mv:
            m_ = mv.model if mv.model is not None else (E.last_model() if E._check() == 'sat' else None)
            mem_viol.append({'what': mv.what, 'detail': det(m_) if m_ is not None else None})
            E.obligations += 1
            return
        if not is_c(r):
            raise Inconclusive('symbolic return value of mem_decide_storage')
        lows = [z3.If(z3.ULT(s, L), z3.If(z3.ULT(e, L), e, L), z3.BitVecVal(0, 64)) for s, e in segs]
        LME, MAXEND = umax(lows), umax([e for _, e in segs])
        items: List[Tuple[Any, str]] = []
        add = lambda c_, l: items.append((c_, f'{tag}: {l}'))  # noqa: E731
        flat_p = rm.get('flat')
        add(z3.BoolVal(is_c(rm.get('storage_decided')) and rm.get('storage_decided') == 1), 'storage_decided is set')
        for (page, words) in pages:
            add(z3.BoolVal(not words.stores), 'the decision does not write into the pages')
        add(z3.BoolVal(len(slots.stores) == 4 and len(segobj.stores) == n_seg_stores), 'page table and segment table are not modified')
        forced_paged = bool(envv) or 'alloc-failed' in world.events
        if r != 0:
            add(z3.BoolVal(r == 0xFFFFFFFF and world.err == 'value'), 'a refusal is -1 with ValueError set')
            add(LME == 0, 'the decision refuses only a program with no segment below the flat window')
            add(z3.BoolVal(is_c(flat_p) and flat_p == 0), 'no flat array after a refusal')
            E.witness('native-storage:no-segment-in-the-window')
        elif is_c(flat_p) and flat_p == 0:
            add(z3.BoolVal(forced_paged), 'paged fallback only when forced (FLIPJUMP_NO_FLAT / failed allocation)')
            add(z3.BoolVal(world.err is None), 'a paged fallback sets no error')
            if not bool(envv.get('FLIPJUMP_NO_FLAT')):
                add(LME != 0, 'a program with no segment below the window is refused, not run paged')
            E.witness('native-storage:paged-fallback')
        else:
            fo, foff = M.resolve(flat_p)
            FC, COV = bv(rm.get('flat_count'), 64), bv(rm.get('flat_covers_all'), 32)
            add(z3.BoolVal(is_c(foff) and foff == 0 and fo.kind == 'heap' and fo.live), 'flat points to a live heap block')
            add(bv(fo.size, 64) == FC * 8, 'the flat block has flat_count words')
            add(LME != 0, 'a program with no segment below the window is refused')
            add(FC == LME, 'flat_count = max over segments starting below the limit of min(end, limit)')
            add((COV != 0) == z3.ULE(MAXEND, LME), 'flat_covers_all <=> no segment reaches beyond the window')
            cell = fo.read_term(IDX)
            want = z3.If(valid_in(segs, IDX), z3.ZeroExt(64 - w, loaded_word(K, pws, IDX, w)) if w < 64 else loaded_word(K, pws, IDX, w),
                         z3.BitVecVal(garbage, 64))
            add(z3.Implies(z3.ULT(IDX, FC), bv(cell, 64) == want),
                'flat[k] == (k in a segment ? the loaded word : the fill constant) for every k < flat_count')
            # linking facts assumed by the op-step harnesses (env.NativeState)
            add(z3.Implies(COV != 0, FC == MAXEND), 'flat mode: flat_count is the largest segment end')
            add(z3.Implies(COV == 0, z3.And(z3.UGT(MAXEND, FC), z3.Or(*[z3.And(z3.ULT(s, FC), z3.ULE(FC, e)) for s, e in segs]))),
                'hybrid mode: the window ends inside (or at the end of) a segment starting below it, and a segment reaches beyond it')
            E.witness('native-storage:flat', COV != 0)
            E.witness('native-storage:hybrid', COV == 0)
            E.witness('native-storage:segment-straddles-the-window-edge', z3.Or(*[z3.And(z3.ULT(s, FC), z3.UGT(e, FC)) for s, e in segs]))
            E.witness('native-storage:gap-inside-the-window', z3.And(z3.ULT(IDX, FC), z3.Not(valid_in(segs, IDX))))
            E.witness('native-storage:loaded-page-copied-in', z3.And(z3.ULT(IDX, FC), valid_in(segs, IDX), z3.Or(K[0] == 1, K[1] == 1)))
            E.witness('native-storage:window-word-never-loaded', z3.And(z3.ULT(IDX, FC), valid_in(segs, IDX), K[0] != 1, K[1] != 1))
            if nsegs > 1:
                E.witness('native-storage:segments-not-in-address-order', z3.UGT(segs[0][0], segs[1][0]))
        E.prove_all(items, detail=det, prefer=[K[0] == 1, z3.ULT(IDX, L)])

    t0 = time.time()
    incon: List[str] = []
    try:
        E.explore(body)
    except Inconclusive as e:
        incon.append(f'{tag}: {e}')
    except ir.IRError as e:
        incon.append(f'{tag}: IR not understood: {e}')
    return finish(E, tag, cfg, mem_viol, incon, t0, 'decide')


def decide_detail(m: Any, segs: Any, L: Any, K: Any, pws: Any, IDX: Any, w: int) -> Dict[str, Any]:
    ev = lambda t: m.eval(t, model_completion=True).as_long()  # noqa: E731
    sg = [[ev(s), ev(e)] for s, e in segs]
    lim = ev(L)
    words = {}
    for k in set(list(range(0, min(lim, 64))) + [ev(IDX)]):
        if any(s <= k < e for s, e in sg):
            words[str(k)] = ev(loaded_word(K, pws, z3.BitVecVal(k, 64), w))
    return {'w': w, 'segments': sg, 'flat_max_words': lim, 'idx': ev(IDX), 'words': words}


# =============================================================================================== Memory_add_segment

def run_add_segment(cfg: Dict[str, Any]) -> Dict[str, Any]:
    common.use_repo()
    w, n, cap = cfg['w'], cfg['n'], cfg['cap']
    tag = f"native-storage/add-segment/w{w}/n{n}/cap{cap}" + ('/alloc-fail' if cfg.get('alloc_fail') else '') + ('/page' if cfg.get('page') else '')
    E = Engine(80, timeout_ms=120_000, max_paths=20000)
    E.fast_ms = 1000
    module = env.load_module()
    mem_viol: List[Dict[str, Any]] = []

    def body() -> None:
        M = Machine(module, E)
        world = env.World(M, n_inputs=0, alloc_fail=bool(cfg.get('alloc_fail')), env={})
        install_qsort(M)
        rm = RawMemory(M, w)
        # the segments so far: arbitrary ranges (the C type accepts whatever the caller passes; no disjointness assumed here)
        old = [(z3.BitVec(f'old{i}_start', 64), z3.BitVec(f'old{i}_end', 64)) for i in range(n)]
        START, LEN, X, OFF = (z3.BitVec(nm, 64) for nm in ('START', 'LEN', 'X', 'OFF'))
        KEY = z3.BitVec('PAGEKEY0', 64)
        for t in [START, LEN, X, OFF, KEY] + [c for p in old for c in p]:
            E.inputs.setdefault(str(t), t)
        for s, e in old:
            E._assume(z3.ULE(s, e))
        E._assume(z3.ULT(OFF, env.PAGE_WORDS))
        E._assume(z3.And(KEY != 0, z3.ULE(KEY, 1 << 50)))
        E._refresh_model()
        segobj = None
        if cap:
            segobj = M.alloc(16 * cap, 'heap', 'segments')
            for i, (s, e) in enumerate(old):
                segobj.write(2 * i, s)
                segobj.write(2 * i + 1, e)
            rm.set('segments', M.ptr(segobj))
        rm.set('segment_count', n)
        rm.set('segment_capacity', cap)
        SORTED0 = z3.BitVec('SORTED0', 32)
        E.inputs.setdefault('SORTED0', SORTED0)
        if n <= 1:
            rm.set('segments_sorted', 1)
        else:
            # the flag may only claim what is true
            rm.set('segments_sorted', z3.If(z3.And(SORTED0 != 0, *[z3.ULE(old[i][0], old[i + 1][0]) for i in range(n - 1)]),
                                            z3.BitVecVal(1, 32), z3.BitVecVal(0, 32)))
        pages = []
        if cfg.get('page'):
            _, _, pages = make_pages(M, rm, [KEY, 0], w)
        pending = [[START, LEN]]

        def parse_tuple(args: Any, fmt: Any, *outs: Any) -> Any:
            vals = pending.pop(0)
            if len(vals) != len(outs):
                raise ir.IRError('PyArg_ParseTuple arity')
            for p, v in zip(outs, vals):
                M.store(p, ir.I64, v)
            return 1
        M.stubs['@_PyArg_ParseTuple_SizeT'] = parse_tuple
        M.stubs['@PyArg_ParseTuple'] = parse_tuple
        none = world.singleton('@_Py_NoneStruct')
        args = M.ptr(world.new_pyobj('args', 1))
        det = lambda m: {'w': w, 'old': [[m.eval(s, model_completion=True).as_long(), m.eval(e, model_completion=True).as_long()] for s, e in old],  # noqa: E731
                         'start': m.eval(START, model_completion=True).as_long(), 'length': m.eval(LEN, model_completion=True).as_long(),
                         'x': m.eval(X, model_completion=True).as_long(), 'page': m.eval(KEY, model_completion=True).as_long() - 1 if cfg.get('page') else None,
                         'off': m.eval(OFF, model_completion=True).as_long()}
        try:
            r = M.call('@Memory_add_segment', [rm.ptr, args])
        except MemoryViolation as mv:
            m_ = mv.model if mv.model is not None else (E.last_model() if E._check() == 'sat' else None)
            mem_viol.append({'what': mv.what, 'detail': det(m_) if m_ is not None else None})
            E.obligations += 1
            return
        items: List[Tuple[Any, str]] = []
        add = lambda c_, l: items.append((c_, f'{tag}: {l}'))  # noqa: E731
        overflow = z3.ULT(START + LEN, START)
        cnt = rm.get('segment_count')
        if is_c(r) and r == 0:
            if world.err == 'nomem':
                add(z3.BoolVal('alloc-failed' in world.events or bool(cfg.get('alloc_fail'))), 'MemoryError only after a failed allocation')
            else:
                add(z3.BoolVal(world.err == 'value'), 'a refusal raises ValueError')
                add(overflow, 'a range is refused only when start + length overflows 64 bits')
                E.witness('native-storage:overflowing-range-refused')
            add(z3.BoolVal(is_c(cnt) and cnt == n), 'a refused / failed add_segment leaves the segment count unchanged')
            if segobj is not None:
                add(z3.BoolVal(segobj.live and is_c(rm.get('segments')) and rm.get('segments') == M.ptr(segobj)), 'the old segment table stays live after a failure')
        else:
            add(z3.BoolVal(is_c(r) and r == none), 'success returns None')
            add(z3.Not(overflow), 'a range whose end overflows 64 bits is refused')
            add(z3.BoolVal(is_c(cnt) and cnt == n + 1), 'segment_count advanced by one')
            so, soff = M.resolve(rm.get('segments'))
            capn = rm.get('segment_capacity')
            add(z3.BoolVal(is_c(capn) and capn >= n + 1 and is_c(so.size) and so.size >= 16 * capn and so.live), 'capacity covers the count, table live')
            new = [(bv(so.read(2 * i), 64), bv(so.read(2 * i + 1), 64)) for i in range(n + 1)]
            add(valid_in(new, X) == z3.Or(valid_in(old, X), z3.And(z3.ULE(START, X), z3.ULT(X, START + LEN))),
                'the valid set grows by exactly [start, start + length)')
            srt = bv(rm.get('segments_sorted'), 32)
            add(z3.Implies(srt != 0, z3.And(*[z3.ULE(new[i][0], new[i + 1][0]) for i in range(n)]) if n else z3.BoolVal(True)),
                'segments_sorted is only set when the table is sorted by start')
            for (page, words) in pages[:1]:
                vs, ve = bv(page.read(1), 64), bv(page.read(2), 64)
                wa = ((KEY - 1) << env.PAGE_BITS) | OFF
                add(z3.ULE(ve, env.PAGE_WORDS), 'page fast range ends inside the page')
                add(z3.Implies(z3.And(z3.ULE(vs, OFF), z3.ULT(OFF, ve)), valid_in(new, wa)),
                    'every offset inside a page\'s fast-path range is an in-segment word')
                E.witness('native-storage:page-range-recomputed', z3.ULT(vs, ve))
            E.witness('native-storage:segment-added')
            if cap == n:
                E.witness('native-storage:segment-table-grown')
        rc = M.load(args, ir.I64)
        add(z3.BoolVal(is_c(rc) and rc == 1), 'borrowed args tuple reference unchanged')
        E.prove_all(items, detail=det)

    t0 = time.time()
    incon: List[str] = []
    try:
        E.explore(body)
    except Inconclusive as e:
        incon.append(f'{tag}: {e}')
    except ir.IRError as e:
        incon.append(f'{tag}: IR not understood: {e}')
    return finish(E, tag, cfg, mem_viol, incon, t0, 'add-segment')


# =============================================================================================== Memory_set_words

def run_set_words(cfg: Dict[str, Any]) -> Dict[str, Any]:
    common.use_repo()
    w, mode, n = cfg['w'], cfg['mode'], cfg['n']
    tag = f'native-storage/set-words/{mode}/w{w}/n{n}' + ('/item-fail' if cfg.get('item_fail') else '')
    E = Engine(80, timeout_ms=120_000, max_paths=20000)
    E.fast_ms = 1000
    module = env.load_module()
    mask = (1 << w) - 1
    mem_viol: List[Dict[str, Any]] = []

    def body() -> None:
        M = Machine(module, E)
        world = env.World(M, n_inputs=0, env={})
        ns = env.NativeState(M, w, 2, mode)
        ns.install_get_page(world)
        START = z3.BitVec('START', 64)
        V = [z3.BitVec(f'V{i}', 64) for i in range(n)]
        for t in [START] + V:
            E.inputs.setdefault(str(t), t)
        if mode == 'paged':
            E._assume(z3.Or(z3.UGE(START, (1 << 64) - 4), z3.LShR(START + 4, env.PAGE_BITS) == cfg.get('page', 2)))   # keeps the page forks small
        E._refresh_model()
        values = world.new_pyobj('values', 1)
        args = M.ptr(world.new_pyobj('args', 1))
        items_objs: List[Any] = []

        def parse_tuple(args_: Any, fmt: Any, p_start: Any, p_values: Any) -> Any:
            M.store(p_start, ir.I64, START)
            M.store(p_values, ir.I64, M.ptr(values))
            return 1
        M.stubs['@_PyArg_ParseTuple_SizeT'] = parse_tuple
        M.stubs['@PyArg_ParseTuple'] = parse_tuple
        M.stubs['@PySequence_Size'] = lambda o: n
        M.stubs['@PySequence_Length'] = lambda o: n

        def get_item(o: Any, i: Any) -> Any:
            if not is_c(i) or i >= n:
                raise MemoryViolation(f'PySequence_GetItem index {i} outside the sequence of {n}')
            if cfg.get('item_fail') and E.branch(world.fresh_bool('getitemfail')):
                world.err = 'other'
                world.events.append('getitem-failed')
                return 0
            it = world.new_pyobj(f'item{i}', 1)
            it.meta['value'] = V[i]
            items_objs.append(it)
            return M.ptr(it)
        M.stubs['@PySequence_GetItem'] = get_item

        def as_ull(p: Any) -> Any:
            o, _ = M.resolve(p)
            if cfg.get('item_fail') and E.branch(world.fresh_bool('convfail')):
                world.err = 'other'
                world.events.append('conversion-failed')
                return (1 << 64) - 1
            return o.meta['value']
        M.stubs['@PyLong_AsUnsignedLongLong'] = as_ull
        none = world.singleton('@_Py_NoneStruct')
        det = lambda m: {'w': w, 'mode': mode, 'segments': [[m.eval(s, model_completion=True).as_long(), m.eval(e, model_completion=True).as_long()] for s, e in ns.segs],  # noqa: E731
                         'flat_count': m.eval(ns.FC, model_completion=True).as_long(), 'start': m.eval(START, model_completion=True).as_long(),
                         'values': [m.eval(v, model_completion=True).as_long() for v in V]}
        try:
            r = M.call('@Memory_set_words', [M.ptr(ns.self_obj), args])
        except MemoryViolation as mv:
            m_ = mv.model if mv.model is not None else (E.last_model() if E._check() == 'sat' else None)
            mem_viol.append({'what': mv.what, 'detail': det(m_) if m_ is not None else None})
            E.obligations += 1
            return
        items: List[Tuple[Any, str]] = []
        add = lambda c_, l: items.append((c_, f'{tag}: {l}'))  # noqa: E731
        overflow = z3.ULT(START + n, START)
        beyond = z3.UGT(START + n, ns.FC) if mode != 'paged' else z3.BoolVal(False)
        st = list(ns.prog_stores)
        if is_c(r) and r == 0:
            if world.err == 'value':
                add(z3.Or(overflow, beyond), 'a range is refused only when it overflows or reaches beyond the flat array')
                add(z3.BoolVal(not st), 'a refused set_words stores nothing')
                E.witness('native-storage:set-words-refused')
            else:
                add(z3.BoolVal(world.err is not None and bool(world.events)), 'NULL is returned with an error set, after a failing item')
        else:
            add(z3.BoolVal(is_c(r) and r == none and world.err is None), 'success returns None')
            add(z3.Not(z3.Or(overflow, beyond)), 'a range that overflows / reaches beyond the flat array is refused')
            add(z3.BoolVal(len(st) == n), f'exactly {n} words are stored')
            E.witness('native-storage:set-words-stored')
        for i, (a, v) in enumerate(st):
            add(z3.And(bv(a, 64) == START + i, bv(v, 64) == (V[i] & mask)), f'store {i} writes values[{i}] & mask to start + {i}')
        leaked = [o.name for o in items_objs if o.id not in world.dealloc]
        add(z3.BoolVal(not leaked), f'sequence items are released ({leaked})')
        rc = values.read(0)
        add(z3.BoolVal(is_c(rc) and rc == 1 and values.id not in world.dealloc), 'the values sequence reference is balanced')
        E.prove_all(items, detail=det)

    t0 = time.time()
    incon: List[str] = []
    try:
        E.explore(body)
    except Inconclusive as e:
        incon.append(f'{tag}: {e}')
    except ir.IRError as e:
        incon.append(f'{tag}: IR not understood: {e}')
    return finish(E, tag, cfg, mem_viol, incon, t0, 'set-words')


# =============================================================================================== Memory_init (re-init of a live object)

def run_init(cfg: Dict[str, Any]) -> Dict[str, Any]:
    common.use_repo()
    w0 = cfg['w']
    tag = f"native-storage/init/w{w0}/{cfg['state']}"
    E = Engine(80, timeout_ms=120_000, max_paths=20000)
    E.fast_ms = 1000
    module = env.load_module()
    mem_viol: List[Dict[str, Any]] = []

    def body() -> None:
        M = Machine(module, E)
        world = env.World(M, n_inputs=0, env={})
        rm = RawMemory(M, w0)
        live = cfg['state'] == 'live'
        heap: List[Any] = []
        nsegs = 2 if live else 0
        if live:
            segobj = M.alloc(16 * 8, 'heap', 'segments')
            rm.set('segments', M.ptr(segobj))
            rm.set('segment_count', nsegs)
            rm.set('segment_capacity', 8)
            K = z3.BitVec('PAGEKEY0', 64)
            E.inputs.setdefault('PAGEKEY0', K)
            E._assume(z3.And(K != 0, z3.ULE(K, 1 << 50)))
            slots, _, pages = make_pages(M, rm, [K, 0], w0)
            flat = M.alloc(8 * 8, 'heap', 'flat')
            rm.set('flat', M.ptr(flat))
            rm.set('flat_count', 8)
            rm.set('storage_decided', 1)
            # the page cache of a live object points into its pages
            M.store(M.ptr(rm.obj, rm.offs[F['cache_key']]), ir.I64, K)
            M.store(M.ptr(rm.obj, rm.offs[F['cache_page']]), ir.I64, M.ptr(pages[0][0]))
            M.store(M.ptr(rm.obj, rm.offs[F['cache_words']]), ir.I64, M.ptr(pages[0][1]))
            heap = [segobj, slots, flat, pages[0][0], pages[0][1]]
        WN, GS, FMW = z3.BitVec('NEW_W', 32), z3.BitVec('NEW_GARBAGE_STOP', 32), z3.BitVec('NEW_FLAT_MAX_WORDS', 64)
        for t in (WN, GS, FMW):
            E.inputs.setdefault(str(t), t)
        E._refresh_model()

        def parse(args: Any, kwds: Any, fmt: Any, kwlist: Any, pw: Any, pgs: Any, pfm: Any) -> Any:
            if E.branch(world.fresh_bool('parsefail')):
                world.err = 'other'
                return 0
            M.store(pw, ir.I32, WN)
            M.store(pgs, ir.I32, GS)
            M.store(pfm, ir.I64, FMW)
            return 1
        M.stubs['@_PyArg_ParseTupleAndKeywords_SizeT'] = parse
        M.stubs['@PyArg_ParseTupleAndKeywords'] = parse
        args = M.ptr(world.new_pyobj('args', 1))
        det = lambda m: {'w': w0, 'state': cfg['state'], 'new_w': m.eval(WN, model_completion=True).as_signed_long(),  # noqa: E731
                         'garbage_stop': m.eval(GS, model_completion=True).as_long(), 'flat_max_words': m.eval(FMW, model_completion=True).as_long()}
        try:
            r = M.call('@Memory_init', [rm.ptr, args, 0])
        except MemoryViolation as mv:
            m_ = mv.model if mv.model is not None else (E.last_model() if E._check() == 'sat' else None)
            mem_viol.append({'what': mv.what, 'detail': det(m_) if m_ is not None else None})
            E.obligations += 1
            return
        items: List[Tuple[Any, str]] = []
        add = lambda c_, l: items.append((c_, f'{tag}: {l}'))  # noqa: E731
        okw = z3.Or(WN == 8, WN == 16, WN == 32, WN == 64)
        if not is_c(r):
            raise Inconclusive('symbolic return value of Memory_init')
        # consistency of the object whatever the outcome: a NULL table goes with a zero count, a non-NULL one is live - this is
        # what every other entry point relies on (add_segment writes segments[segment_count], mem_get_page probes slots[...])
        ptrs = {n_: rm.get(n_) for n_ in ('slots', 'segments', 'flat')}
        cnt = {'slots': rm.get('slot_count'), 'segments': rm.get('segment_count'), 'flat': rm.get('flat_count')}
        for n_, p_ in ptrs.items():
            if not is_c(p_):
                raise Inconclusive(f'symbolic {n_} pointer after Memory_init')
            if p_ == 0:
                add(z3.BoolVal(is_c(cnt[n_]) and cnt[n_] == 0), f'{n_} == NULL goes with a zero {n_} count (else the next call dereferences NULL)')
            else:
                add(z3.BoolVal(M.resolve(p_)[0].live), f'a non-NULL {n_} pointer refers to a live block (else use after free)')
        if ptrs['slots'] == 0:
            ck = M.load(M.ptr(rm.obj, rm.offs[F['cache_key']]), ir.I64)
            add(z3.BoolVal(is_c(ck) and ck == 0), 'the page cache is empty when the page table is gone (else a cached page pointer dangles)')
        if ptrs['segments'] == 0:
            add(z3.BoolVal(is_c(rm.get('segment_capacity')) and rm.get('segment_capacity') == 0), 'segment_capacity is 0 when the table is gone')
        if r == 0:
            add(okw, 'only the widths 8/16/32/64 are accepted')
            add(z3.BoolVal(all(not o.live for o in heap)), 'a successful re-init frees every block the object owned')
            add(z3.BoolVal(all(is_c(p_) and p_ == 0 for p_ in ptrs.values())), 'a successful init leaves no storage')
            add(bv(rm.get('w'), 32) == WN, 'w stored')
            add(bv(rm.get('word_mask'), 64) == z3.If(WN == 64, z3.BitVecVal((1 << 64) - 1, 64), (z3.BitVecVal(1, 64) << z3.ZeroExt(32, WN)) - 1), 'word_mask = 2^w - 1')
            add(z3.BitVecVal(1, 32) << bv(rm.get('ww'), 32) == WN, 'ww = log2 w')
            add(z3.BoolVal(is_c(rm.get('storage_decided')) and rm.get('storage_decided') == 0), 'storage undecided after init')
            E.witness('native-storage:init-accepted')
        else:
            add(z3.BoolVal(r == 0xFFFFFFFF and world.err is not None), 'a refusal is -1 with an error set')
            if world.err == 'value':
                add(z3.Not(okw), 'ValueError only for an unsupported width')
                E.witness('native-storage:init-refused-width')
        E.prove_all(items, detail=det)

    t0 = time.time()
    incon: List[str] = []
    try:
        E.explore(body)
    except Inconclusive as e:
        incon.append(f'{tag}: {e}')
    except ir.IRError as e:
        incon.append(f'{tag}: IR not understood: {e}')
    return finish(E, tag, cfg, mem_viol, incon, t0, 'init')


# =============================================================================================== common tail / replay

def finish(E: Engine, tag: str, cfg: Dict[str, Any], mem_viol: List[Dict[str, Any]], incon: List[str], t0: float, kind: str) -> Dict[str, Any]:
    viol, replayed, seen = [], 0, set()
    fails = E.failed + [{'label': f"{tag}: memory safety: {v['what']}", 'detail': v.get('detail'), 'memsafety': True} for v in mem_viol]
    for f in fails:
        key = f['label'].split(': ', 1)[1][:70]
        if key in seen:
            continue
        seen.add(key)
        replayed += 1
        case = {'native': True, 'storage_kind': kind, 'cfg': cfg, 'label': f['label'], **(f.get('detail') or {})}
        rep = replay_case(case) if f.get('detail') else {'differs': False, 'why': 'no model for this obligation'}
        if rep.get('differs'):
            viol.append({'label': f['label'], 'signature': f'native-storage:{kind}:{key[:60]}',
                         'replay': common.write_replay(cfg.get('prop', 'C07'), tag + key[:24], case), 'detail': rep})
        else:
            incon.append(f"{f['label']}: counterexample did not reproduce on a fresh build: {str(rep)[:400]}")
    return {'configs': 1, **E.stats(), 'samples': [], 'violations': viol, 'inconclusive': incon, 'replayed': replayed,
            'harnesses': {tag: {'paths': E.paths, 'queries': sum(E.q.values()), 'solver_s': round(E.solver_s, 2), 'wall_s': round(time.time() - t0, 2)}}}


def _child(case: Dict[str, Any], q: Any) -> None:
    import os
    try:
        common.use_repo()
        for k in ('FLIPJUMP_NO_FLAT', 'FLIPJUMP_TEST_FLAT_ALLOC_FAIL', 'FLIPJUMP_FLAT_MAX_WORDS', 'FLIPJUMP_MEASURE_SPECULATION'):
            os.environ.pop(k, None)
        for k, v in (case['cfg'].get('env') or {}).items():
            os.environ[k] = v
        core = native_replay.fresh_core()
        kind, w = case['storage_kind'], case['w']
        mask = (1 << w) - 1
        what: List[str] = []
        if kind == 'decide':
            segs = case['segments']
            valid = lambda a: any(s <= a < e for s, e in segs)  # noqa: E731
            mem = core.Memory(w, flat_max_words=case['flat_max_words'])
            for s, e in segs:
                mem.add_segment(s, e - s)
            image = {int(k): v for k, v in case['words'].items()}
            idx = case['idx']
            # an op somewhere inside a segment (2 in-segment words, not the probed word) that flips bit 0 of word idx and halts
            opw = None
            for s, e in segs:
                for cand in range(s, min(e - 1, s + 40)):
                    if valid(cand + 1) and idx not in (cand, cand + 1) and (cand + 2) * w <= (1 << w):
                        opw = cand
                        break
                if opw is not None:
                    break
            if opw is None or idx * w >= (1 << w):
                q.put({'differs': False, 'what': 'no room for a replay op in the counterexample segments / address not encodable'})
                return
            image[opw], image[opw + 1] = (idx * w) & mask, (opw * w) & mask
            for a, v in image.items():
                mem.set_word(a, v)
            out: List[bool] = []
            try:
                cause, ops, err, _, _ = mem.run(lambda: False, out.append, EOFError, start_ip=opw * w)
                got = {'cause': cause, 'ops': ops, 'fault': err}
            except Exception as e:  # noqa: BLE001
                got = {'exception': f'{type(e).__name__}: {e}'}
            lows = [min(e, case['flat_max_words']) for s, e in segs if s < case['flat_max_words']]
            if not lows:
                if 'exception' not in got or 'ValueError' not in got['exception']:
                    what.append(f'no segment below the flat window: expected ValueError, got {got}')
            elif valid(idx):
                want = {'cause': 0, 'ops': 1, 'fault': got.get('fault')}
                if got.get('cause') != 0 or got.get('ops') != 1:
                    what.append(f'an op flipping bit 0 of in-segment word {idx} and jumping to itself must halt after 1 op: got {got}')
                else:
                    exp = (image.get(idx, 0) ^ 1) & mask
                    if mem.get_word(idx) != exp:
                        what.append(f'word {idx} after the flip: get_word = {mem.get_word(idx)}, expected {exp} (loaded {image.get(idx, 0)})')
                    for a, v in image.items():
                        if a != idx and valid(a) and mem.get_word(a) != v:
                            what.append(f'loaded word {a}: get_word = {mem.get_word(a)}, expected {v}')
            else:
                if got.get('cause') != 3 or got.get('fault') != idx * w:
                    what.append(f'an op flipping a bit of gap word {idx} must stop with a memory error at {idx * w}: got {got}')
            q.put({'differs': bool(what), 'what': '; '.join(what) or 'as documented', 'storage': getattr(mem, 'storage_mode', None), 'run': got})
            return
        if kind == 'init':
            # a crash of the engine kills this child; the parent reports that as the difference
            mem = core.Memory(w)
            if case['state'] == 'live':
                mem.add_segment(0, 64)
                mem.add_segment(1 << 20, 64)
                mem.set_word(0, 0)
                mem.set_word(1, 0)
                mem.set_word((1 << 20) + 3, 5)
                mem.run(lambda: False, lambda b: None, EOFError)
            nw = case['new_w']
            try:
                mem.__init__(nw, bool(case['garbage_stop']), case['flat_max_words'])
                res = 'ok'
            except ValueError:
                res = 'ValueError'
            if (nw in (8, 16, 32, 64)) != (res == 'ok'):
                what.append(f'Memory.__init__({nw}) -> {res}')
            if res == 'ok':
                if mem.get_word(1 << 20 | 3) != 0:
                    what.append('a re-initialised Memory still holds old words')
            # the object must stay usable after either outcome
            mem.add_segment(0, 16)
            mem.set_word(3, 7)
            if mem.get_word(3) != 7 & ((1 << (nw if res == 'ok' else w)) - 1):
                what.append(f'get_word(3) after set_word(3, 7) = {mem.get_word(3)}')
            q.put({'differs': bool(what), 'what': '; '.join(what) or 'as documented'})
            return
        if kind == 'add-segment':
            mem = core.Memory(w)
            for s, e in case['old']:
                mem.add_segment(s, e - s)
            if case.get('page') is not None:
                mem.set_word((case['page'] << env.PAGE_BITS) + case['off'], 1)      # allocates the page
            start, length = case['start'], case['length']
            try:
                mem.add_segment(start, length)
                res = 'ok'
            except ValueError:
                res = 'ValueError'
            except MemoryError:
                res = 'MemoryError'
            if (start + length >= 1 << 64) != (res == 'ValueError'):
                what.append(f'add_segment({start}, {length}) -> {res}; start+length {"overflows" if start + length >= 1 << 64 else "fits"} 64 bits')
            q.put({'differs': bool(what), 'what': '; '.join(what) or 'as documented'})
            return
        if kind == 'set-words':
            mode = case['mode']
            if mode == 'paged':
                os.environ['FLIPJUMP_NO_FLAT'] = '1'
            kwargs = {'flat_max_words': case['flat_count']} if mode == 'hybrid' else {}
            mem = core.Memory(w, **kwargs)
            for s, e in case['segments']:
                mem.add_segment(s, e - s)
            # decide the storage with a halting op at the first segment
            s0 = case['segments'][0][0]
            mem.set_word(s0, 0)
            mem.set_word(s0 + 1, (s0 * w) & mask)
            try:
                mem.run(lambda: False, lambda b: None, EOFError, start_ip=s0 * w)
            except Exception as e:  # noqa: BLE001
                q.put({'differs': False, 'what': f'cannot decide the storage for the replay: {e}'})
                return
            start, vals = case['start'], case['values']
            fc = case['flat_count'] if mode != 'paged' else None
            try:
                mem.set_words(start, vals)
                res = 'ok'
            except ValueError:
                res = 'ValueError'
            should_refuse = start + len(vals) >= (1 << 64) + (0 if vals else 1) or (fc is not None and start + len(vals) > fc)
            if should_refuse != (res == 'ValueError'):
                what.append(f'set_words({start}, {len(vals)} values) -> {res}, flat_count {fc}, storage {mem.storage_mode}')
            q.put({'differs': bool(what), 'what': '; '.join(what) or 'as documented', 'storage': mem.storage_mode})
            return
        q.put({'differs': False, 'what': f'unknown storage replay kind {kind}'})
    except Exception:  # noqa: BLE001
        import traceback
        q.put({'differs': False, 'error': traceback.format_exc()[-600:]})


def replay_case(case: Dict[str, Any], timeout: int = 60) -> Dict[str, Any]:
    import multiprocessing as mp
    ctx = mp.get_context('spawn')
    q = ctx.Queue()
    p = ctx.Process(target=_child, args=(case, q))
    p.start()
    try:
        rep = q.get(timeout=timeout)
    except Exception:  # noqa: BLE001
        p.join(5)
        crashed = p.exitcode is not None and p.exitcode < 0         # killed by a signal (SIGSEGV / SIGABRT): the engine crashed
        rep = {'differs': crashed, 'what': f'the replay child was killed by signal {-p.exitcode} - a crash of the native engine'
               if crashed else f'no result from the replay child (exit code {p.exitcode})'}
    p.join(5)
    if p.is_alive():
        p.kill()
    return rep


def replay(case: Dict[str, Any]) -> int:
    import json
    rep = replay_case(case)
    print(json.dumps(rep, indent=1, default=str))
    return 1 if rep.get('differs') else 0


def configs(prop: str, tier: str) -> List[Tuple[str, Dict[str, Any]]]:
    quick = tier == 'quick'
    out: List[Tuple[str, Dict[str, Any]]] = []
    if prop == 'C07':
        for w in ((16, 64) if quick else (8, 16, 32, 64)):
            out.append(('decide', {'w': w, 'nsegs': 1, 'lmax': 4 if quick else 8, 'pages': 2}))
            out.append(('decide', {'w': w, 'nsegs': 2, 'lmax': 3 if quick else 5, 'pages': 1}))
        if not quick:
            out.append(('decide', {'w': 16, 'nsegs': 2, 'lmax': 2, 'pages': 2}))
            out.append(('decide', {'w': 16, 'nsegs': 3, 'lmax': 3, 'pages': 1}))
        out.append(('decide', {'w': 16, 'nsegs': 1, 'lmax': 3, 'env': {'FLIPJUMP_NO_FLAT': '1'}}))
        out.append(('decide', {'w': 16, 'nsegs': 1, 'lmax': 3, 'env': {'FLIPJUMP_TEST_FLAT_ALLOC_FAIL': '1'}}))
        for n, cap in ((0, 0), (1, 8), (2, 2)):
            out.append(('add_segment', {'w': 16, 'n': n, 'cap': cap, 'page': n > 0}))
        for mode in ('flat', 'paged'):
            out.append(('set_words', {'w': 16, 'mode': mode, 'n': 2}))
    elif prop == 'C11':
        out.append(('decide', {'w': 16, 'nsegs': 2, 'lmax': 3, 'pages': 1, 'alloc_fail': True}))
        out.append(('decide', {'w': 64, 'nsegs': 1, 'lmax': 4, 'alloc_fail': True}))
        for n, cap in ((0, 0), (2, 2), (1, 8)):
            out.append(('add_segment', {'w': 64, 'n': n, 'cap': cap, 'page': n > 0, 'alloc_fail': True}))
        for st in ('fresh', 'live'):
            out.append(('init', {'w': 16, 'state': st}))
        for mode in ('flat', 'hybrid', 'paged'):
            for n in ((0, 2) if quick else (0, 1, 2, 3)):
                out.append(('set_words', {'w': 64 if mode != 'hybrid' else 16, 'mode': mode, 'n': n, 'item_fail': n > 0}))
    for _, c in out:
        c['prop'] = prop
    return out


def _dispatch(job: Tuple[str, Dict[str, Any]]) -> Dict[str, Any]:
    kind, cfg = job
    return {'decide': run_decide, 'add_segment': run_add_segment, 'set_words': run_set_words, 'init': run_init}[kind](cfg)


WITNESSES = {'C07': ['native-storage:flat', 'native-storage:hybrid', 'native-storage:segment-straddles-the-window-edge',
                     'native-storage:gap-inside-the-window', 'native-storage:loaded-page-copied-in', 'native-storage:window-word-never-loaded',
                     'native-storage:segments-not-in-address-order', 'native-storage:no-segment-in-the-window', 'native-storage:paged-fallback',
                     'native-storage:overflowing-range-refused', 'native-storage:segment-added', 'native-storage:segment-table-grown',
                     'native-storage:page-range-recomputed', 'native-storage:set-words-stored', 'native-storage:set-words-refused'],
             'C11': ['native-storage:paged-fallback', 'native-storage:segment-table-grown', 'native-storage:set-words-refused',
                     'native-storage:set-words-stored', 'native-storage:init-accepted', 'native-storage:init-refused-width']}


def run(report: Report, tier: str, only: Optional[str] = None, prop: str = 'C07') -> None:
    module = env.load_module()
    for name in ('@mem_decide_storage', '@mem_flat_words_limit', '@Memory_add_segment', '@Memory_set_words', '@Memory_init', '@mem_free_allocations', '@page_compute_validity',
                 '@mem_ensure_segments_sorted', '@segment_compare'):
        fn = module.functions.get(name)
        if fn is None:
            report.inconclusive.append(f'native-storage: function {name} not found in the IR of the current _fjcore.c')
            continue
        report.functions.append({'name': name.lstrip('@'), 'file': 'flipjump/interpreter/_fjcore.c (LLVM IR, clang-14)', 'ir_sha1': fn.text_hash,
                                 'blocks': len(fn.blocks)})
    report.stub('qsort -> 3/4-element sorting network by adjacent exchanges, each comparison through the REAL segment_compare IR',
                'PyArg_ParseTuple -> stores the harness\'s symbolic arguments; PySequence_Size/GetItem, PyLong_AsUnsignedLongLong -> a sequence '
                'of n symbolic 64-bit values whose items may fail to be fetched / converted',
                'memset / memcpy with symbolic offset or length -> one range store (8-byte granularity proved per call), bounds obligation on the whole range')
    report.bounds['native_storage'] = (
        'mem_decide_storage: 1-3 symbolic unsorted disjoint segments anywhere in 64 bits, flat_max_words symbolic in 1..Lmax (Lmax 3-8: the '
        'fill loop is unrolled), a real 2-slot page table with symbolic page indices and arbitrary page words; add_segment: 0-2 existing '
        'segments, capacity full or not, one allocated page; set_words: 0-3 items, flat / hybrid / paged')
    report.outside += ['flat_max_words == 0 (FLIPJUMP_FLAT_MAX_WORDS / the 2^26-word default: the fill loop cannot be unrolled)',
                       'windows larger than 8 words, more than 3 segments, more than 2 allocated pages at the decision',
                       'Memory_dealloc / the Memory_run prologue']
    jobs = configs(prop, tier)
    if only:
        jobs = [j for j in jobs if only in f"native-storage/{j[0].replace('_', '-')}"]
    else:
        report.require_witnesses(*WITNESSES.get(prop, []))
    common.run_pool(_dispatch, jobs, report)
