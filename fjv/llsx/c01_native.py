"""C01 / C07 / C11 / C18 (native part): one op of every C loop clone from an arbitrary state, compared with pyspec.

The loop functions are executed from their entry; at the first arrival at the op-loop header the loop-carried values
(ip, ops, inner_left, ring_writes) are havocked (replaced by fresh symbols constrained only by the stated invariant), and
the path is cut when the header is reached again: one pass = one op from an arbitrary state at an arbitrary ip, which by
induction over ops covers runs of any length.  The state is a symbolic Memory object (flat / hybrid / paged) tied to an
abstract memory (valid word addresses = union of symbolic segments, word content = arbitrary array) by the representation
invariant; after the op the C state must again represent the abstract memory that pyspec produces.
"""
from __future__ import annotations

import json
import time
import traceback
from typing import Any, Dict, List, Optional, Tuple

import z3

from fjv import common, pyspec
from fjv.common import Report, Inconclusive
from fjv.llsx import env, ir
from fjv.llsx.interp import Cut, Frame, Machine, MemoryViolation, bv, is_c, simp
from fjv.pysym import Engine, SymInt, mk, mkb, to_z3, to_z3_bool

SIGNAL_CHECK_MASK = 0x3FFFF


def lift64(E: Engine, v: Any) -> Any:
    """C value (int | BV64) -> proxy int of the engine width"""
    if is_c(v):
        return v
    return mk(z3.ZeroExt(E.W - 64, v), 0, (1 << 64) - 1)


def run_op(cfg: Dict[str, Any]) -> Dict[str, Any]:
    """one configuration: (loop function, width, storage mode, ring, failure model)"""
    common.use_repo()
    w, loop, mode = cfg['w'], cfg['loop'], cfg['mode']
    nsegs = cfg.get('nsegs', 2)
    signals, io_fail, alloc_fail = cfg.get('signals', False), cfg.get('io_fail', False), cfg.get('alloc_fail', False)
    tag = (f"native/{loop}/{mode}/w{w}/ipbit{cfg['off']}" + (f"/ring{cfg['ring']}" if cfg.get('ring') else '') +
           (f"/page{cfg['op_page']}" if 'op_page' in cfg else '') + ('/signals' if signals else '')) + ('/io-fail' if io_fail else '') + ('/alloc-fail' if alloc_fail else '')
    W = 2 * 64 + 16 if w == 64 else 80
    E = Engine(W, timeout_ms=cfg.get('timeout_ms', 240_000), max_paths=cfg.get('max_paths', 20000))
    E.fast_ms = cfg.get('fast_ms', 1000)
    module = env.load_module()
    samples: List[Any] = []
    mem_viol: List[Dict[str, Any]] = []

    def body() -> None:
        M = Machine(module, E)
        world = env.World(M, n_inputs=1, signals=signals, io_fail=io_fail, alloc_fail=alloc_fail, env={})
        ns = env.NativeState(M, w, nsegs, mode)
        ns.install_get_page(world)
        M.stubs['@spec_record'] = lambda shadow, m_, ip_, jw_: 0      # measurement bookkeeping only (hash table of visited ips)
        ww_ = w.bit_length() - 1
        OFF = cfg['off']
        if mode == 'flat' or w <= 16:
            IPW = z3.BitVec('IP_WORD', w - ww_)
            ipw_term = IPW
        else:
            # paged / hybrid at w >= 32: the op's page index is a configuration, its offset inside the page is symbolic
            IPW = z3.BitVec('IP_WORD', env.PAGE_BITS)
            ipw_term = z3.Concat(z3.BitVecVal(cfg.get('op_page', 0), w - ww_ - env.PAGE_BITS), IPW)
        E.inputs.setdefault('IP_WORD', IPW)
        IP = z3.Concat(ipw_term, z3.BitVecVal(OFF, ww_))
        if w < 64:
            IP = z3.ZeroExt(64 - w, IP)
        elif mode == 'flat' or w <= 16:
            # the op at the very top of the 64-bit address space (ip + w wraps in uint64_t): its own case
            if E.branch(IPW == (1 << (w - ww_)) - 1):
                E.witness('native:ip-at-top-of-address-space', True)
        OPS = z3.BitVec('OPS', 64)
        IL = z3.BitVec('INNER_LEFT', 64)
        RW = z3.BitVec('RING_WRITES', 64)
        for n_, c_ in (('OPS', OPS), ('INNER_LEFT', IL), ('RING_WRITES', RW)):
            E.inputs.setdefault(n_, c_)
        pre = [z3.ULE(OPS, 1 << 62), z3.UGE(IL, 1), z3.ULE(IL, SIGNAL_CHECK_MASK + 1), z3.ULE(RW, 1 << 62)]
        for c_ in pre:
            E._assume(c_)
        E._refresh_model()
        ops_out = M.alloc(8, 'stack', 'ops_out')
        paused = M.alloc(8, 'stack', 'paused_out')
        rw_out = M.alloc(8, 'stack', 'ring_writes_out')
        rb, wb, eof = (M.ptr(world.new_pyobj(n_, 5)) for n_ in ('read_bit', 'write_bit', 'eof_type'))
        L = cfg.get('ring', 0)
        ring = None
        if L:
            RING = z3.Array('RING', z3.BitVecSort(64), z3.BitVecSort(64))
            ring = M.alloc(8 * L, 'heap', 'last_ops_ring', base=lambda i: z3.Select(RING, i))
        state = {'header': None}

        def after_phis(fr: Frame, block: str, prev: Optional[str]) -> None:
            if fr is not M.frames[0]:
                return
            names = phi_names(fr, block)
            bases = {r: r.lstrip('%').split('.')[0] for r in names}
            if state['header'] is None:
                if 'ip' in bases.values() and (block.startswith('do.body') or 'inner_left' not in all_phi_bases(fr)):
                    state['header'] = block
                    for r, base in bases.items():
                        if base == 'ip':
                            fr.regs[r] = IP
                        elif base == 'ops':
                            fr.regs[r] = OPS
                        elif base == 'inner_left':
                            fr.regs[r] = IL
                        elif base == 'ring_writes':
                            fr.regs[r] = RW
                        elif base == 'op_flat_jump':
                            # whatever the previous op left: NULL, or a pointer to some word of the flat array
                            if ns.flat is not None and E.branch(z3.Bool('STALE_FLAT_JUMP_PTR')):
                                fr.regs[r] = M.gep(ir.I64, M.ptr(ns.flat), [(ir.I64, z3.BitVec('STALE_INDEX', 64))])
                            else:
                                fr.regs[r] = 0
                        elif base in ('op_slot', 'op_offset'):
                            fr.regs[r] = z3.BitVec('STALE_' + base.upper(), 64)
                return
            if fr.visits.get(block, 0) >= 2 and (block == state['header'] or block.startswith('for.cond')):
                raise Cut('header', {base: fr.regs[r] for r, base in bases.items()})

        M.after_phis = after_phis          # type: ignore[attr-defined]
        M.on_block = lambda fr, b_, p_: None
        outcome: Dict[str, Any] = {}
        args = [M.ptr(ns.self_obj), rb, wb, eof, IP, M.ptr(ops_out), M.ptr(paused)]
        if loop == 'run_generic_loop':
            args += [M.ptr(ring) if ring is not None else 0, L, M.ptr(rw_out)]
        try:
            r = M.call('@' + loop, args)
            outcome = {'kind': 'returned', 'cause': r if is_c(r) else simp(r), 'ops': ops_out.read(0),
                       'ring_writes': rw_out.read(0) if loop == 'run_generic_loop' else None}
        except Cut as c:
            outcome = {'kind': 'cut', 'ip': c.data.get('ip'), 'ops': c.data.get('ops'), 'ring_writes': c.data.get('ring_writes')}
        except MemoryViolation as mv:
            m_ = mv.model if mv.model is not None else (E.last_model() if E._check() == 'sat' else None)
            img = None
            if m_ is not None:
                try:
                    img = image_from_model(m_, ns, IP, world, w)
                except Exception:  # noqa: BLE001 - the image is only needed for the replay
                    img = None
            mem_viol.append({'what': mv.what, 'model': E.model_values(m_) if m_ is not None else {}, 'tag': tag, 'detail': img})
            E.obligations += 1
            return
        # ------------------------------------------------ the reference: pyspec on the abstract memory
        smem, sio = env.NativeSpecMem(ns, W), env.NativeSpecIO(world)
        rec: Dict[str, Any] = {}
        status, extra, counted = pyspec.step(w, smem, sio, lift64(E, IP), rec)
        items: List[Tuple[Any, str]] = []
        add = lambda c_, l: items.append((c_, f'{tag}: {l}'))  # noqa: E731
        ops_expected = OPS + (1 if counted else 0)
        python_error = outcome['kind'] == 'returned' and outcome['cause'] == (-2 & 0xFFFFFFFF)
        if python_error:
            # a Python exception is propagating (device failure / interrupt / allocation failure): no termination cause;
            # the state must be that of the ops completed before the stop (C18)
            add(z3.BoolVal(world.err is not None), 'CAUSE_PYTHON_ERROR is returned with the error indicator set')
            add(z3.BoolVal(bool(world.events)), 'CAUSE_PYTHON_ERROR only when a callback / allocation / signal poll failed')
            stop_counted = counted and ('signal' in world.events and status == pyspec.CONTINUE and False)
            E.witness('native:python-error', True)
        elif outcome['kind'] == 'cut':
            add(z3.BoolVal(status == pyspec.CONTINUE), f'the loop continues (reference status {status})')
            if status == pyspec.CONTINUE:
                add(bv(outcome['ip'], 64) == z3.Extract(63, 0, to_z3(extra)), 'next ip')
            add(bv(outcome['ops'], 64) == ops_expected, 'op counter after the op')
        else:
            cause = outcome['cause']
            if not is_c(cause):
                raise Inconclusive('symbolic termination cause')
            st = env.CAUSE_TO_STATUS.get(cause)
            add(z3.BoolVal(st == status), f'termination cause (C {cause} vs reference status {status})')
            add(bv(outcome['ops'], 64) == ops_expected, 'reported op count')
            add(bv(ns.get_field(28), 64) == ops_expected, 'last_run_op_count')
            if st == pyspec.MEMERR and status == pyspec.MEMERR:
                add(z3.ZeroExt(W - 64, bv(ns.get_field(23), 64)) == to_z3(extra), 'fault address')
            add(bv(ns.get_field(22, 4), 32) == 0, 'mem_error flag cleared on exit')
        if not python_error:
            add(z3.BoolVal(len(world.out) == len(sio.out)), 'number of output bits')
            for i_, (a, b) in enumerate(zip(world.out, sio.out)):
                a_ = a if not isinstance(a, bool) else z3.BoolVal(a)
                add(a_ == to_z3_bool(b), f'output bit {i_}')
            add(z3.BoolVal(world.reads == sio.reads), 'number of read_bit calls')
            # representation invariant re-established for the abstract memory the reference produced
            # store-wise: the C op wrote the same cells with the same values, in the same order, as the reference did, and only
            # valid cells; by construction of the two memories this implies (for every index k)
            #     flat'[k] == (valid(k) ? word'(k) : fill)
            # i.e. the flat array again represents the reference memory (same argument as unfolding both store chains).
            cst, sst = list(ns.prog_stores), list(smem.stores)
            add(z3.BoolVal(len(cst) == len(sst)), f'the op stores to memory as often as the reference ({len(cst)} vs {len(sst)})')
            for n_, ((ci, cv), (si, sv)) in enumerate(zip(cst, sst)):
                add(z3.And(bv(ci, 64) == si, ns.valid(bv(ci, 64))), f'memory store {n_} hits the same (valid) word')
                add(bv(cv, 64) == (z3.ZeroExt(64 - w, sv) if w < 64 else sv), f'memory store {n_} writes the same word value (and nothing above bit w)')
            if ring is not None:
                kq = z3.BitVec('kq', 64)
                slot_ = z3.URem(RW, z3.BitVecVal(L, 64))
                add(z3.Implies(z3.ULT(kq, L), bv(ring.read_term(kq), 64) == z3.If(kq == slot_, IP, z3.Select(RING, kq))),
                    'last-ops ring: the op address is recorded at ring_writes % L, the other entries are untouched')
                if outcome.get('ring_writes') is not None:
                    add(bv(outcome['ring_writes'], 64) == RW + 1, 'ring_writes advanced by one')
        # reference counts: every object the callbacks returned is released exactly once
        leaked = [o.name for o in world.pyobjs if o.name in ('write_result', 'read_result') and o.id not in world.dealloc]
        add(z3.BoolVal(not leaked), f'callback results are released ({leaked})')
        for o in world.pyobjs:
            if o.name in ('read_bit', 'write_bit', 'eof_type'):
                rc = o.read(0)
                add(z3.BoolVal(is_c(rc) and rc == 5), f'borrowed reference {o.name} unchanged')
        prefer = [OPS == 0]
        ww2 = w.bit_length() - 1
        if status == pyspec.CONTINUE:
            prefer.append(z3.Not(ns.valid(z3.LShR(z3.Extract(63, 0, to_z3(extra)), ww2))))     # the run ends at the next op
        if outcome['kind'] == 'cut' and outcome.get('ip') is not None:
            prefer.append(z3.Not(ns.valid(z3.LShR(bv(outcome['ip'], 64), ww2))))
        E.prove_all(items, detail=lambda m: model_image(m, ns, smem, IP, OPS, IL, world, w), prefer=prefer)
        # witness classes
        ipz = IP
        E.witness('native:unaligned-ip', (ipz & (w - 1)) != 0)
        E.witness({pyspec.LOOPING: 'native:halt-looping', pyspec.NULLIP: 'native:halt-null-ip', pyspec.MEMERR: 'native:memory-error',
                   pyspec.CONTINUE: 'native:continues', pyspec.EOF: 'native:end-of-input'}[status], True)
        if world.out:
            E.witness('native:output', True)
        if world.reads and status != pyspec.EOF:
            E.witness('native:input-bit-consumed', True)
        if 'f' in rec:
            f = z3.Extract(63, 0, to_z3(rec['f']))
            ww = w.bit_length() - 1
            if w == 64:
                E.witness('native:word-equal-to-the-magic-fill', f == env.FLAT_GARBAGE_MAGIC)
            E.witness('native:flip-beyond-flat-window', z3.UGE(z3.LShR(f, ww), ns.FC))
            E.witness('native:op-straddles-flat-window', z3.LShR(IP, ww) + 1 == ns.FC)
            if 'j' in rec and status == pyspec.CONTINUE:
                E.witness('native:self-jump-but-self-flip', z3.Extract(63, 0, to_z3(rec['j'])) == IP)
        if len(samples) < 2:
            samples.append({'config': tag, 'outcome': outcome['kind'], 'reference_status': status, 'steps': M.steps})

    t0 = time.time()
    incon: List[str] = []
    try:
        E.explore(body)
    except Inconclusive as e:
        incon.append(f'{tag}: {e}')
    except ir.IRError as e:
        incon.append(f'{tag}: IR not understood: {e}')
    viol, replayed = [], 0
    seen = set()
    from fjv.llsx import native_replay
    for f in E.failed + [{'label': f"{tag}: memory safety: {v['what']}", 'detail': v.get('detail'), 'model': v['model'], 'memsafety': True} for v in mem_viol]:
        key = f['label'].split(': ', 1)[1][:60]
        if key in seen:
            continue
        seen.add(key)
        replayed += 1
        case = {'native': True, 'cfg': cfg, 'label': f['label'], 'image': f.get('detail'), 'model': f.get('model'),
                'all_failing': f.get('all_failing')}
        rep = native_replay.replay_case(case) if f.get('detail') else {'differs': False, 'why': 'no concrete image for this obligation'}
        if rep.get('differs'):
            viol.append({'label': f['label'], 'signature': rep.get('signature', f"native:{loop}:{mode}:w{w}:{key}"),
                         'replay': common.write_replay(cfg.get('prop', 'C01'), tag + key[:30] + f'_{abs(hash(key)) % 10**6}', case), 'detail': rep})
        else:
            incon.append(f"{f['label']}: counterexample did not reproduce on a fresh build of the C engine: {str(rep)[:500]}")
    return {'configs': 1, **E.stats(), 'samples': samples, 'violations': viol, 'inconclusive': incon, 'replayed': replayed,
            'harnesses': {tag: {'paths': E.paths, 'queries': sum(E.q.values()), 'solver_s': round(E.solver_s, 2),
                                'wall_s': round(time.time() - t0, 2)}}}


def phi_names(fr: Frame, block: str) -> List[str]:
    return [i.dest for i in fr.fn.blocks[block].instrs if i.op == 'phi']


def all_phi_bases(fr: Frame) -> set:
    return {i.dest.lstrip('%').split('.')[0] for b in fr.fn.blocks.values() for i in b.instrs if i.op == 'phi'}


def image_from_model(m: Any, ns: Any, IP: Any, world: Any, w: int) -> Dict[str, Any]:
    """concrete replay image for a path that ended in a memory-safety violation: the reference machine is run concretely
    on the model, every word it asks for is read out of the model's abstract memory"""
    ev = lambda t: m.eval(t, model_completion=True).as_long()  # noqa: E731
    segs = [[ev(s), ev(e)] for s, e in ns.segs]
    orig: Dict[int, int] = {}

    class LazyMem:
        def __init__(self) -> None:
            self.cur: Dict[int, int] = {}

        def valid(self, wa: int) -> bool:
            return any(s <= wa < e for s, e in segs)

        def load(self, wa: int) -> int:
            if wa not in self.cur:
                self.cur[wa] = orig[wa] = ev(z3.Select(ns.MA, z3.BitVecVal(wa, 64)))
            return self.cur[wa]

        def store(self, wa: int, v: int) -> None:
            self.load(wa)
            self.cur[wa] = v
    bits = []
    for a, b in zip(world.avail, world.bits):
        if not z3.is_true(m.eval(a, model_completion=True)):
            break
        bits.append(z3.is_true(m.eval(b, model_completion=True)))
    ipv = ev(IP)
    mem = LazyMem()
    pyspec.step(w, mem, pyspec.ListIO(bits), ipv)
    for d in range(4):          # the op's own words, even where the reference stopped early
        k = (ipv >> (w.bit_length() - 1)) + d
        if mem.valid(k):
            mem.load(k)
    return {'w': w, 'segments': segs, 'words': {str(k): v for k, v in orig.items()}, 'ip': ipv, 'flat_count': ev(ns.FC),
            'inputs': [[z3.is_true(m.eval(a, model_completion=True)), z3.is_true(m.eval(b, model_completion=True))]
                       for a, b in zip(world.avail, world.bits)]}


def model_image(m: Any, ns: Any, smem: Any, IP: Any, OPS: Any, IL: Any, world: Any, w: int) -> Dict[str, Any]:
    """concrete image for the replay: segments, the words the op touched, ip"""
    ev = lambda t: m.eval(t, model_completion=True).as_long()  # noqa: E731
    segs = [[ev(s), ev(e)] for s, e in ns.segs]
    words: Dict[str, int] = {}
    keys = list(smem.keys)
    ipv = ev(IP)
    ww = w.bit_length() - 1
    for d in range(0, 4):
        keys.append(z3.BitVecVal((ipv >> ww) + d, 64))
    for kt in keys:
        k = ev(kt)
        if any(s <= k < e for s, e in segs):
            words[str(k)] = ev(z3.Select(ns.MA, z3.BitVecVal(k, 64)))
    return {'w': w, 'segments': segs, 'words': words, 'ip': ipv, 'flat_count': ev(ns.FC),
            'inputs': [[z3.is_true(m.eval(a, model_completion=True)), z3.is_true(m.eval(b, model_completion=True))]
                       for a, b in zip(world.avail, world.bits)]}


FLAT_CLASSES = ['unaligned-ip', 'halt-looping', 'halt-null-ip', 'memory-error', 'continues', 'end-of-input', 'output', 'input-bit-consumed',
                'flip-beyond-flat-window', 'op-straddles-flat-window', 'self-jump-but-self-flip']


def configs_for(prop: str, tier: str) -> List[Dict[str, Any]]:
    """the (loop clone, storage mode, width, ip bit offset, ring, failure model) jobs of each property's native part.
    valid combinations only: run_flat_loop <=> flat array present and no ring; run_generic_loop without ring <=> paged."""
    quick = tier == 'quick'
    cfgs: List[Dict[str, Any]] = []

    def offs(w: int, few: bool = False) -> List[int]:
        if few:
            return [0, 1]
        return sorted({0, 1, w // 2, w - 1}) if quick else list(range(w))
    if prop == 'C01':
        for w in (8, 16, 32, 64):
            # w=32 unaligned flat ops are the one place where single queries run into minutes (and answered `unknown` twice on a
            # loaded / slower machine): quick keeps the aligned w=32 op, unaligned ops are covered at w = 8, 16, 64; thorough has all
            for off in ((0,) if quick and w == 32 else offs(w)):
                cfgs.append({'w': w, 'off': off, 'loop': 'run_flat_loop', 'mode': 'flat'})
        for w in (8, 16):
            for off in offs(w, quick):
                cfgs.append({'w': w, 'off': off, 'loop': 'run_generic_loop', 'mode': 'paged'})
        for w in (32, 64):
            # unaligned paged ops at w=64: the solver does not finish (outside the claim); at w=32 they take ~11 min (thorough)
            for off in ((0,) if quick or w == 64 else (0, 1)):
                cfgs.append({'w': w, 'off': off, 'loop': 'run_generic_loop', 'mode': 'paged', 'op_page': 1})
    elif prop == 'C07':
        cfgs.append({'w': 16, 'off': 0, 'loop': 'run_flat_loop', 'mode': 'hybrid'})
        cfgs.append({'w': 32, 'off': 0, 'loop': 'run_generic_loop', 'mode': 'paged', 'op_page': 17})
        cfgs += [{'w': 16, 'off': 0, 'loop': 'run_generic_loop', 'mode': 'flat', 'ring': 3},
                 {'w': 8, 'off': 1, 'loop': 'run_generic_loop', 'mode': 'flat', 'ring': 1},
                 {'w': 16, 'off': 0, 'loop': 'run_generic_loop', 'mode': 'hybrid', 'ring': 1},
                 {'w': 32, 'off': 0, 'loop': 'run_generic_loop', 'mode': 'paged', 'ring': 2, 'op_page': 1},
                 {'w': 16, 'off': 0, 'loop': 'run_measured_loop', 'mode': 'flat'},
                 {'w': 16, 'off': 0, 'loop': 'run_measured_loop', 'mode': 'paged'},
                 {'w': 16, 'off': 0, 'loop': 'run_measured_loop', 'mode': 'hybrid'}]
        if not quick:
            # the long poles (15-50 min each). unaligned ops at w=64 in hybrid / paged storage are outside the claim: the solver
            # answers unknown on their obligations
            cfgs += [{'w': 8, 'off': 1, 'loop': 'run_flat_loop', 'mode': 'hybrid'},
                     {'w': 16, 'off': 1, 'loop': 'run_flat_loop', 'mode': 'hybrid'},
                     {'w': 64, 'off': 0, 'loop': 'run_flat_loop', 'mode': 'hybrid', 'op_page': 0},
                     {'w': 32, 'off': 1, 'loop': 'run_generic_loop', 'mode': 'paged', 'op_page': 17},
                     {'w': 64, 'off': 0, 'loop': 'run_generic_loop', 'mode': 'paged', 'op_page': 17},
                     {'w': 16, 'off': 1, 'loop': 'run_measured_loop', 'mode': 'paged'},
                     {'w': 64, 'off': 0, 'loop': 'run_measured_loop', 'mode': 'hybrid', 'op_page': 0}]
            for w in (8, 16, 32, 64):
                for off in offs(w, True):
                    cfgs.append({'w': w, 'off': off, 'loop': 'run_generic_loop', 'mode': 'flat', 'ring': 2})
                    cfgs.append({'w': w, 'off': off, 'loop': 'run_measured_loop', 'mode': 'flat'})
    elif prop == 'C11':
        for w in (8, 64):
            cfgs.append({'w': w, 'off': 1, 'loop': 'run_flat_loop', 'mode': 'flat', 'alloc_fail': True})
        cfgs.append({'w': 8, 'off': 0, 'loop': 'run_generic_loop', 'mode': 'paged', 'alloc_fail': True})
        cfgs.append({'w': 32, 'off': 0, 'loop': 'run_generic_loop', 'mode': 'paged', 'alloc_fail': True, 'op_page': 1})
        cfgs.append({'w': 16, 'off': 0, 'loop': 'run_flat_loop', 'mode': 'hybrid', 'alloc_fail': True})
        cfgs.append({'w': 16, 'off': 0, 'loop': 'run_generic_loop', 'mode': 'flat', 'ring': 2, 'alloc_fail': True})
        if not quick:
            cfgs.append({'w': 64, 'off': 0, 'loop': 'run_generic_loop', 'mode': 'paged', 'alloc_fail': True, 'op_page': 1})
            cfgs.append({'w': 32, 'off': 0, 'loop': 'run_flat_loop', 'mode': 'hybrid', 'alloc_fail': True, 'op_page': 0})
            cfgs.append({'w': 16, 'off': 0, 'loop': 'run_measured_loop', 'mode': 'flat', 'alloc_fail': True})
    elif prop == 'C18':
        for w in (8, 64):
            cfgs.append({'w': w, 'off': 0, 'loop': 'run_flat_loop', 'mode': 'flat', 'signals': True, 'io_fail': True})
        cfgs.append({'w': 8, 'off': 1, 'loop': 'run_generic_loop', 'mode': 'paged', 'signals': True, 'io_fail': True})
        cfgs.append({'w': 32, 'off': 0, 'loop': 'run_generic_loop', 'mode': 'paged', 'signals': True, 'io_fail': True, 'op_page': 1})
        cfgs.append({'w': 16, 'off': 0, 'loop': 'run_generic_loop', 'mode': 'flat', 'ring': 2, 'signals': True, 'io_fail': True})
        cfgs.append({'w': 16, 'off': 0, 'loop': 'run_measured_loop', 'mode': 'flat', 'signals': True, 'io_fail': True})
        if not quick:
            cfgs.append({'w': 64, 'off': 0, 'loop': 'run_generic_loop', 'mode': 'paged', 'signals': True, 'io_fail': True, 'op_page': 1})
            cfgs.append({'w': 16, 'off': 1, 'loop': 'run_flat_loop', 'mode': 'hybrid', 'signals': True, 'io_fail': True})
    for c in cfgs:
        c['prop'] = prop
    return cfgs


def cfg_tag(c: Dict[str, Any]) -> str:
    return (f"native/{c['loop']}/{c['mode']}/w{c['w']}/ipbit{c['off']}" + (f"/ring{c['ring']}" if c.get('ring') else '') +
            (f"/page{c['op_page']}" if 'op_page' in c else ''))


def run(report: Report, tier: str, only: Optional[str] = None, prop: str = 'C01') -> None:
    from fjv.llsx import validate
    module = env.load_module()
    for name in ('@run_flat_loop', '@run_generic_loop', '@run_measured_loop', '@mem_read_word', '@mem_flip_bit', '@mem_write_bit',
                 '@mem_get_word_unaligned', '@flat_garbage_check', '@flat_is_garbage', '@flat_seg_contains', '@flat_garbage',
                 '@access_check', '@word_is_valid', '@page_compute_validity', '@page_cache_fill'):
        fn = module.functions[name]
        report.functions.append({'name': name.lstrip('@'), 'file': 'flipjump/interpreter/_fjcore.c (LLVM IR, clang-14 -O0 + mem2reg/instcombine/simplifycfg)',
                                 'ir_sha1': fn.text_hash, 'blocks': len(fn.blocks)})
    report.stub(*env.STUBS_TEXT)
    report.stub('mem_get_page -> contract model: the page of an index is an already materialised page (aliasing decided by forking) or a '
                'fresh one whose words represent (in-segment ? program word : arbitrary device junk) and whose fast valid range is '
                'computed by the REAL page_compute_validity IR; the cache-hit test and page_cache_fill are the real code',
                'spec_record (speculation hash table of the measured loop) -> no-op')
    report.bounds['native_engine'] = (
        'one op from the havocked loop header (ip word part, op count, poll counter, ring_writes and the stale per-op registers are '
        'arbitrary) of run_flat_loop / run_generic_loop / run_measured_loop on a symbolic Memory: 2 symbolic disjoint sorted segments, '
        'arbitrary word content; flat: flat_count = end of the last segment <= 2^22; hybrid: window edge inside a segment; paged: pages '
        'materialised on demand (at w >= 32 the op\'s page index is a configuration, its offset in the page symbolic)')
    report.bounds['native_ip_bit_offsets'] = 'quick: {0, 1, w/2, w-1} (or {0,1}; at w=32 the flat loop runs offset 0 only); thorough: every bit offset 0..w-1 for the flat loop'
    report.outside += ['compiler correctness between clang-14 IR and the shipped gcc build', 'the default: clone for unsupported widths',
                       'segments_sorted == 0 (the lazy qsort on the first validity query)', 'the hash-table walk of mem_get_page '
                       '(replaced by its contract)', 'more than 2 segments in the op-step harnesses', 'unaligned ops in paged mode at w=64 (solver does not finish; covered at w=32 paged and w=64 flat)']
    validate.validate_executor(report)
    cfgs = configs_for(prop, tier)
    if only:
        cfgs = [c for c in cfgs if only in cfg_tag(c)]
    if prop == 'C01':
        report.require_witnesses(*[f'native:{c}' for c in FLAT_CLASSES])
    common.run_pool(run_op, cfgs, report)
