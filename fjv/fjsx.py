"""fjsx - a symbolic FlipJump machine for the standard library (C04, C05, C08, C09).

The stl *is* code and its semantics is the FlipJump machine.  A harness writes a tiny .fj program (startup + init, the macro
call(s) under test, labelled halting exits, variable declarations), the REAL assembler assembles it against the current
/repo/flipjump/stl, the real Reader loads it and the .fjd gives the label addresses.  The data bits of the declared
variables are replaced by symbolic bit-vectors; every other word is the concrete assembled value.

State = (concrete ip, sparse memory word -> int | z3 term, path condition, output bits, input cursor).  An op with a
symbolic jump word is a dispatch: its feasible targets are enumerated by z3, the children are advanced in lockstep until
they all have visited some ip (the join), then re-run to the join and merged field by field (bits on which all children
agree stay constant, every maximal run of disagreeing bits becomes one narrow if-then-else chain keyed by the dispatch
value and gets a fresh name).  Merging at any commonly visited ip is sound (an ite over a partition of the path condition).
"""
from __future__ import annotations

import shutil
import time
from pathlib import Path
from typing import Any, Dict, List, Optional, Set, Tuple

import z3

from fjv import common
from fjv.common import Inconclusive


def is_c(x: Any) -> bool:
    return isinstance(x, int)


class Halt:
    def __init__(self, kind: str, ip: int, mem: Dict[int, Any], pc: Any, out: List[Any], inpos: int, ops: int):
        self.kind, self.ip, self.mem, self.pc, self.out, self.inpos, self.ops = kind, ip, mem, pc, out, inpos, ops


class Program:
    """assembled harness program: memory image + labels"""

    def __init__(self, src: str, w: int, tag: str):
        common.use_repo()
        from flipjump import assemble
        from flipjump.fjm.fjm_consts import FJMVersion
        from flipjump.fjm.fjm_reader import Reader
        from flipjump.utils.functions import load_debugging_labels
        d = common.scratch_dir('fjsx')
        f = d / f'{tag}.fj'
        f.write_text(src)
        out, dbg = d / f'{tag}.fjm', d / f'{tag}.fjd'
        t0 = time.time()
        assemble([f], out, memory_width=w, fjm_version=FJMVersion(1), print_time=False, debugging_file_path=dbg)
        self.asm_s = time.time() - t0
        rd = Reader(out)
        self.w = w
        self.base: Dict[int, int] = rd.memory
        self.zb = list(rd.zeros_boundaries)
        self.labels: Dict[str, int] = load_debugging_labels(dbg)
        self.src = src
        for p in (f, out, dbg):
            try:
                p.unlink()
            except OSError:
                pass

    def label(self, name: str) -> int:
        if name in self.labels:
            return self.labels[name]
        raise KeyError(name)


class Machine:
    def __init__(self, prog: Program, inputs: Optional[List[Any]] = None, fuel: int = 2_000_000, max_dispatch: int = 4000):
        self.p = prog
        self.w = prog.w
        self.ww = self.w.bit_length() - 1
        self.dw = 2 * self.w
        self.in_addr = 3 * self.w + self.w.bit_length()
        self.solver = z3.SolverFor('QF_BV')
        self.solver.set('timeout', 120_000)
        self._ncache: Dict[int, Tuple[int, int, Any]] = {}
        self.inputs = inputs or []            # symbolic input bits (z3 1-bit vectors); beyond them = end of input
        self.fuel = [fuel]
        self.stats = dict(steps=0, forks=0, joins=0, queries=0, nojoin=0, named=0)
        self.solver_s = 0.0
        self.max_dispatch = max_dispatch

    # ---------------------------------------------------------------- memory
    def rd(self, mem: Dict[int, Any], wa: int) -> Any:
        v = mem.get(wa)
        if v is not None:
            return v
        v = self.p.base.get(wa)
        if v is not None:
            return v
        for a, b in self.p.zb:
            if a <= wa < b:
                return 0
        raise KeyError(wa)

    def narrow(self, j: Any) -> Tuple[int, List[int], Any]:
        """split the word j into constant bits and one narrow term of its symbolic bits"""
        w = self.w
        const, symbits = 0, []
        for i in range(w):
            b = z3.simplify(z3.Extract(i, i, j))
            if z3.is_bv_value(b):
                const |= b.as_long() << i
            else:
                symbits.append((i, b))
        if not symbits:
            return const, [], None
        v = z3.simplify(z3.Concat(*[b for _, b in symbits[::-1]])) if len(symbits) > 1 else symbits[0][1]
        return const, [i for i, _ in symbits], v

    def check(self) -> str:
        t = time.time()
        r = str(self.solver.check())
        self.solver_s += time.time() - t
        self.stats['queries'] += 1
        return r

    def targets(self, pc: Any, j: Any) -> Tuple[List[Tuple[int, int]], Any]:
        const, pos, v = self.narrow(j)
        if v is None:
            return [(const, 0)], None
        cap = 1024 if len(pos) <= 12 else 64     # wide words (pointers) are expected to be pinned to a few values by the path condition
        s = self.solver
        s.push()
        s.add(pc)
        res = []
        while True:
            r = self.check()
            if r == 'unsat':
                break
            if r != 'sat':
                s.pop()
                raise Inconclusive('solver unknown while enumerating dispatch targets')
            val = s.model().eval(v, model_completion=True).as_long()
            s.add(v != val)
            t = const
            for k, p in enumerate(pos):
                if (val >> k) & 1:
                    t |= 1 << p
            res.append((t, val))
            if len(res) > cap:
                s.pop()
                raise Inconclusive(f'more than {cap} dispatch targets on {len(pos)} symbolic bits')
        s.pop()
        return sorted(res), v

    # ---------------------------------------------------------------- one op on a state with concrete ip
    def step(self, ip: int, mem: Dict[int, Any], out: List[Any], inpos: List[int], f0: Optional[int] = None) -> Tuple[str, Any]:
        """-> ('go', next ip) | ('halt', kind) | ('symjump', word) | ('symflip', word)"""
        w, ww, dw = self.w, self.ww, self.dw
        if ip & (w - 1):
            raise Inconclusive(f'unaligned ip {ip} in an stl program')
        self.fuel[0] -= 1
        if self.fuel[0] <= 0:
            raise Inconclusive('fjsx fuel exhausted')
        self.stats['steps'] += 1
        try:
            f = self.rd(mem, ip >> ww)
        except KeyError:
            return 'halt', f'memory-error@{ip}'
        if f0 is not None:
            f = f0           # the flip word's value on this path (resolved by the caller's dispatch)
        elif not is_c(f):
            c, pos, _ = self.narrow(f)
            if pos:
                return 'symflip', f
            f = c
        if f == dw or f == dw + 1:
            out.append(f & 1)
        if ip <= self.in_addr < ip + dw:
            if inpos[0] >= len(self.inputs):
                return 'halt', 'eof'
            bit = self.inputs[inpos[0]]
            inpos[0] += 1
            iw = self.in_addr >> ww
            old = self.rd(mem, iw)
            off = self.in_addr & (w - 1)
            oldz = z3.BitVecVal(old, w) if is_c(old) else old
            hi = z3.Extract(w - 1, off + 1, oldz) if off + 1 < w else None
            lo = z3.Extract(off - 1, 0, oldz) if off > 0 else None
            parts = [x for x in (hi, bit, lo) if x is not None]
            nv = z3.simplify(z3.Concat(*parts) if len(parts) > 1 else parts[0])
            mem[iw] = nv.as_long() if z3.is_bv_value(nv) else nv
        fw = f >> ww
        try:
            v = self.rd(mem, fw)
        except KeyError:
            return 'halt', f'memory-error@{fw << ww}'
        bit_ = 1 << (f & (w - 1))
        if is_c(v):
            mem[fw] = v ^ bit_
        else:
            nv = z3.simplify(v ^ z3.BitVecVal(bit_, w))
            mem[fw] = nv.as_long() if z3.is_bv_value(nv) else nv
        try:
            j = self.rd(mem, (ip >> ww) + 1)
        except KeyError:
            return 'halt', f'memory-error@{ip + w}'
        if not is_c(j):
            c, pos, _ = self.narrow(j)
            if pos:
                return 'symjump', j
            j = c
        if j == ip and not (ip <= f < ip + dw):
            return 'halt', 'looping'
        if j < dw:
            return 'halt', 'null-ip'
        return 'go', j

    # ---------------------------------------------------------------- run with fork-join
    def run(self, ip: int, mem: Dict[int, Any], pc: Any, out: List[Any], inpos: int, depth: int = 0, f0: Optional[int] = None) -> List[Halt]:
        """run until every path halted; returns the final states"""
        ops = 0
        while True:
            ipos = [inpos]
            try:
                st, x = self.step(ip, mem, out, ipos, f0)
            except Inconclusive as e:
                if not hasattr(e, 'pc'):
                    e.pc = pc          # type: ignore[attr-defined]   # the path that could not be finished (for a concrete replay)
                raise
            f0 = None
            inpos = ipos[0]
            ops += 1
            if st == 'go':
                ip = x
                continue
            if st == 'halt':
                return [Halt(x, ip, mem, pc, out, inpos, ops)]
            if st == 'symflip':
                # a flip through a symbolic address (pointer macros): one continuation per feasible address, never merged
                self.stats['forks'] += 1
                if self.stats['forks'] > self.max_dispatch:
                    raise Inconclusive(f'more than {self.max_dispatch} dispatches')
                tv, v = self.targets(pc, x)
                if len(tv) > 64:
                    raise Inconclusive(f'symbolic flip word at ip {ip} with {len(tv)} feasible values')
                if len(tv) == 1:
                    f0 = tv[0][0]
                    pc = z3.And(pc, v == tv[0][1])
                    ops -= 1
                    continue
                res0: List[Halt] = []
                for t, val in tv:
                    res0.extend(self.run(ip, dict(mem), z3.simplify(z3.And(pc, v == val)), list(out), inpos, depth + 1, f0=t))
                return res0
            # symbolic jump word: dispatch
            try:
                conts = self.fork_join(ip, mem, pc, x, out, inpos, depth)
            except Inconclusive as e:
                if not hasattr(e, 'pc'):
                    e.pc = pc          # type: ignore[attr-defined]
                raise
            if len(conts) == 1 and conts[0][0] == 'cont':
                _, ip, mem, pc, out, inpos = conts[0]
                continue
            res: List[Halt] = []
            for kind, cip, cmem, cpc, cout, cin in conts:
                if kind == 'halt':
                    res.append(Halt(cip[1], cip[0], cmem, cpc, cout, cin, ops))
                else:
                    res.extend(self.run(cip, cmem, cpc, cout, cin, depth + 1))
            return res

    def fork_join(self, ip: int, mem: Dict[int, Any], pc: Any, j: Any, out: List[Any], inpos: int, depth: int) -> List[Tuple[Any, ...]]:
        self.stats['forks'] += 1
        if self.stats['forks'] > self.max_dispatch:
            raise Inconclusive(f'more than {self.max_dispatch} dispatches')
        tv, v = self.targets(pc, j)
        if v is None or len(tv) == 1:
            t = tv[0][0]
            return [('cont', t, mem, pc if v is None else z3.And(pc, v == tv[0][1]), out, inpos)]
        if not (z3.is_const(v) and v.decl().kind() == z3.Z3_OP_UNINTERPRETED):
            self.stats['named'] += 1
            d = z3.BitVec(f"d{self.stats['named']}", v.size())
            pc = z3.And(pc, d == v)
            v = d
        vals = {t: z3.BitVecVal(val, v.size()) for t, val in tv}
        ts = [t for t, _ in tv]
        N = len(ts)
        # phase 1: lockstep until some ip has been visited by every child
        kids = [[t, dict(mem), 'go', list(out), [inpos]] for t in ts]
        for t in ts:
            if t < self.dw:
                pass
        count: Dict[int, int] = {}
        seen: List[Set[int]] = [{t} for t in ts]
        for s_ in seen:
            for t in s_:
                count[t] = count.get(t, 0) + 1
        J = next((t for t, c in count.items() if c == N), None)
        rounds = 0
        while J is None and rounds < 3000:
            rounds += 1
            progressed = False
            for c, kid in enumerate(kids):
                if kid[2] != 'go':
                    continue
                st, nip = self.step(kid[0], kid[1], kid[3], kid[4])
                if st != 'go':
                    kid[2] = st if st != 'halt' else f'halt:{nip}'
                    continue
                progressed = True
                kid[0] = nip
                if nip not in seen[c]:
                    seen[c].add(nip)
                    count[nip] = count.get(nip, 0) + 1
                    if count[nip] == N:
                        J = nip
                        break
            if not progressed:
                break
        rest: List[int] = []
        if J is None:
            # the children never all meet (different exits / their own dispatches first). merge the largest group that does meet
            # (e.g. the fifteen "no carry" cases of a digit step) and continue the others separately
            best = max(count.values()) if count else 0
            if best >= 2:
                J = next(t for t, c in count.items() if c == best)
                rest = [t for c, t in enumerate(ts) if J not in seen[c]]
                ts = [t for c, t in enumerate(ts) if J in seen[c]]
                self.stats['partial'] = self.stats.get('partial', 0) + 1
        if J is None:
            self.stats['nojoin'] += 1
            rest = ts
            ts = []
        res = []
        for t in rest:
            cpc = z3.simplify(z3.And(pc, v == vals[t]))
            if t < self.dw and t != ip:
                res.append(('halt', (ip, 'null-ip'), dict(mem), cpc, list(out), inpos))
            else:
                res.append(('cont', t, dict(mem), cpc, list(out), inpos))
        if not ts:
            return res
        if rest:
            pc = z3.And(pc, z3.Or(*[v == vals[t] for t in ts]))
        # phase 2: re-run each child concretely to its first arrival at J and merge
        runs = []
        for t in ts:
            m, o, ipos, cip = dict(mem), list(out), [inpos], t
            guard = 0
            while cip != J:
                st, cip2 = self.step(cip, m, o, ipos)
                if st != 'go':
                    raise Inconclusive(f'child of a dispatch stopped ({st}) before its join')
                cip = cip2
                guard += 1
                if guard > 200_000:
                    raise Inconclusive('child does not reach the join')
            runs.append((t, m, o, ipos[0]))
        self.stats['joins'] += 1
        outs0, in0 = runs[0][2], runs[0][3]
        if any(len(o) != len(outs0) or ip_ != in0 for _, _, o, ip_ in runs):
            # different amounts of IO: do not merge, continue separately from J
            return res + [('cont', J, m, z3.simplify(z3.And(pc, v == vals[t])), o, ip_) for t, m, o, ip_ in runs]
        merged_out = []
        for k in range(len(outs0)):
            col = [o[k] for _, _, o, _ in runs]
            if all(is_c(x) for x in col) and len(set(col)) == 1:
                merged_out.append(col[0])
            else:
                e = col[-1] if not is_c(col[-1]) else z3.BitVecVal(col[-1], 1)
                for (t, _, _, _), x in zip(runs[-2::-1], col[-2::-1]):
                    e = z3.If(v == vals[t], x if not is_c(x) else z3.BitVecVal(x, 1), e)
                merged_out.append(z3.simplify(e))
        keys: Set[int] = set()
        for _, m, _, _ in runs:
            keys |= m.keys()
        merged: Dict[int, Any] = {}
        newdefs = []
        w = self.w
        full = (1 << w) - 1
        for k in keys:
            vs = [self.rd(m, k) for _, m, _, _ in runs]
            if all(is_c(x) for x in vs) and len(set(vs)) == 1:
                merged[k] = vs[0]
                continue
            info = []
            for x in vs:
                if is_c(x):
                    info.append((full, x))
                else:
                    key = x.get_id()
                    hit = self._ncache.get(key)
                    if hit is None or not hit[2].eq(x):
                        c, pos, _ = self.narrow(x)
                        mask = full
                        for p in pos:
                            mask &= ~(1 << p)
                        hit = (mask, c, x)            # the term is pinned: ast ids are recycled after garbage collection
                        self._ncache[key] = hit
                    info.append(hit[:2])
            same = full
            for mk, _ in info:
                same &= mk
            ref = info[0][1]
            for _, cv in info[1:]:
                same &= ~(cv ^ ref)
            pieces = []
            i = 0
            while i < w:
                j0 = i
                varying = not (same >> i) & 1
                while i < w and (not (same >> i) & 1) == varying:
                    i += 1
                lo, hi = j0, i - 1
                if not varying:
                    pieces.append(z3.BitVecVal((ref >> lo) & ((1 << (hi - lo + 1)) - 1), hi - lo + 1))
                    continue

                def fld(x: Any) -> Any:
                    return (z3.BitVecVal((x >> lo) & ((1 << (hi - lo + 1)) - 1), hi - lo + 1) if is_c(x)
                            else z3.simplify(z3.Extract(hi, lo, x)))
                e = fld(vs[-1])
                for (t, _, _, _), vv in zip(runs[-2::-1], vs[-2::-1]):
                    e = z3.If(v == vals[t], fld(vv), e)
                e = z3.simplify(e)
                if not z3.is_bv_value(e) and not (z3.is_const(e) and e.decl().kind() == z3.Z3_OP_UNINTERPRETED):
                    self.stats['named'] += 1
                    xname = z3.BitVec(f"x{self.stats['named']}", e.size())
                    newdefs.append(xname == e)
                    e = xname
                pieces.append(e)
            e = z3.simplify(z3.Concat(*pieces[::-1])) if len(pieces) > 1 else pieces[0]
            merged[k] = e.as_long() if z3.is_bv_value(e) else e
        return res + [('cont', J, merged, z3.And(pc, *newdefs) if newdefs else pc, merged_out, in0)]


def cleanup() -> None:
    shutil.rmtree(common.scratch_dir('fjsx'), ignore_errors=True)
