"""Shared plumbing: repo location, report/evidence writer, exit codes, known findings, replays."""
from __future__ import annotations

import hashlib
import inspect
import json
import os
import sys
import time
from pathlib import Path
from typing import Any, Callable, Dict, List, Optional

VERIF = Path(__file__).resolve().parent.parent
REPO = Path(os.environ.get('FJ_REPO', '/repo')).resolve()
SEED = int(os.environ.get('VERIF_SEED', '0') or 0)

EXIT_OK, EXIT_VIOLATION, EXIT_INCONCLUSIVE = 0, 1, 2


def use_repo() -> None:
    """make `import flipjump` resolve to REPO's working tree (not a stale copy)."""
    p = str(REPO)
    if p in sys.path:
        sys.path.remove(p)
    sys.path.insert(0, p)
    for name in list(sys.modules):
        if name == 'flipjump' or name.startswith('flipjump.'):
            mod = sys.modules[name]
            f = getattr(mod, '__file__', None)
            if f and not str(Path(f).resolve()).startswith(p):
                del sys.modules[name]
    os.environ.setdefault('FLIPJUMP_VERIF', '1')


def run_root() -> Path:
    """everything one ./check invocation (and its pool workers / replay children) writes outside /verif lives under this
    directory; the invocation removes it when it ends"""
    return Path('/var/tmp') / f"fjv-run-{os.environ.get('FJV_RUN', os.getpid())}"


def scratch_dir(tag: str) -> Path:
    d = run_root() / f'{os.getpid()}-{tag}'
    d.mkdir(parents=True, exist_ok=True)
    return d


def src_fingerprint(obj: Any) -> Dict[str, Any]:
    """file, line span and hash of a function/class of the repo, as read from the current tree."""
    try:
        src, line = inspect.getsourcelines(obj)
        f = inspect.getsourcefile(obj)
        name = getattr(obj, '__qualname__', getattr(obj, '__name__', str(obj)))
        return {'name': name, 'file': str(Path(f).resolve().relative_to(REPO)) if f else '?',
                'lines': [line, line + len(src) - 1],
                'sha1': hashlib.sha1(''.join(src).encode()).hexdigest()[:12]}
    except Exception as e:  # builtins etc.
        return {'name': str(obj), 'file': '?', 'error': repr(e)}


class Inconclusive(BaseException):
    """the machinery could not decide (solver unknown, bound hit, harness problem)."""


class Report:
    """collects what a check run covered and decides the exit code."""

    def __init__(self, prop: str, tier: str):
        self.prop, self.tier = prop, tier
        self.t0 = time.time()
        self.functions: List[Dict[str, Any]] = []
        self.stubs: List[str] = []
        self.bounds: Dict[str, Any] = {}
        self.outside: List[str] = []
        self.assumptions: List[str] = []
        self.configs = 0
        self.paths = 0
        self.queries = {'sat': 0, 'unsat': 0, 'unknown': 0}
        self.solver_s = 0.0
        self.obligations = 0
        self.discharged = 0
        self.witnesses: Dict[str, int] = {}
        self.required_witnesses: List[str] = []
        self.validation_runs = 0
        self.replayed = 0
        self.samples: List[Any] = []
        self.violations: List[Dict[str, Any]] = []
        self.known_hits: List[str] = []
        self.inconclusive: List[str] = []
        self.extra: Dict[str, Any] = {}
        self.harnesses: Dict[str, Dict[str, Any]] = {}

    # ---- recording
    def encode(self, *objs: Any) -> None:
        for o in objs:
            fp = src_fingerprint(o)
            if fp not in self.functions:
                self.functions.append(fp)

    def stub(self, *texts: str) -> None:
        for t in texts:
            if t not in self.stubs:
                self.stubs.append(t)

    def sample(self, s: Any, cap: int = 12) -> None:
        if len(self.samples) < cap:
            self.samples.append(s)

    def witness(self, name: str, n: int = 1) -> None:
        self.witnesses[name] = self.witnesses.get(name, 0) + n

    def require_witnesses(self, *names: str) -> None:
        for n in names:
            if n not in self.required_witnesses:
                self.required_witnesses.append(n)

    def merge(self, part: Dict[str, Any]) -> None:
        """merge a worker's partial result (plain dict from merge_dict())."""
        self.configs += part.get('configs', 0)
        self.paths += part.get('paths', 0)
        for k, v in part.get('queries', {}).items():
            self.queries[k] = self.queries.get(k, 0) + v
        self.solver_s += part.get('solver_s', 0.0)
        self.obligations += part.get('obligations', 0)
        self.discharged += part.get('discharged', 0)
        for k, v in part.get('witnesses', {}).items():
            self.witness(k, v)
        self.validation_runs += part.get('validation_runs', 0)
        self.replayed += part.get('replayed', 0)
        for s in part.get('samples', []):
            self.sample(s)
        self.violations += part.get('violations', [])
        self.inconclusive += part.get('inconclusive', [])
        for h, d in part.get('harnesses', {}).items():
            cur = self.harnesses.setdefault(h, {})
            for k, v in d.items():
                cur[k] = cur.get(k, 0) + v if isinstance(v, (int, float)) else v

    # ---- finishing
    def finish(self) -> int:
        known = load_known_findings(self.prop)
        new_violations = []
        for v in self.violations:
            sig = v.get('signature', '')
            hit = next((k for k in known if k['signature'] == sig), None)
            if hit is not None:
                if sig not in self.known_hits:
                    self.known_hits.append(sig)
                    print(f"KNOWN-FINDING: property={self.prop} {sig} -- {hit.get('what', '')}")
            else:
                new_violations.append(v)
        for w in self.required_witnesses:
            if not self.witnesses.get(w):
                self.inconclusive.append(f'vacuity: witness class "{w}" was never reached')
        if self.queries.get('unknown'):
            self.inconclusive.append(f"{self.queries['unknown']} solver queries returned unknown")
        wall = time.time() - self.t0
        ev = {
            'property_id': self.prop,
            'tier': self.tier,
            'seed': SEED,
            'level': 'model_checking',
            'coverage': {
                'states': max(self.paths, 0),
                'transitions': sum(self.queries.values()),
                'traces_validated_against_impl': self.validation_runs + self.replayed,
                'samples': self.samples or ['(none)'],
                'obligations': self.obligations,
                'discharged': self.discharged,
                'configurations': self.configs,
                'queries': self.queries,
                'solver_s': round(self.solver_s, 3),
                'functions_encoded': self.functions,
                'stubs': self.stubs,
                'bounds': self.bounds,
                'outside_claim': self.outside,
                'witness_classes': self.witnesses,
                'required_witness_classes': self.required_witnesses,
                'harnesses': self.harnesses,
                'known_findings_reproduced': self.known_hits,
                'inconclusive': self.inconclusive[:50],
                'exhaustive': False,
                'explanation': 'states = symbolic execution paths explored to completion; transitions = SMT queries; '
                               'every obligation is a z3 unsat verdict over all values inside the stated bounds',
                **self.extra,
            },
            'assumptions': self.assumptions,
            'wall_s': round(wall, 3),
            'violations': len(new_violations),
        }
        evdir = Path(os.environ.get('FJV_EVIDENCE_DIR') or (VERIF / 'evidence'))      # seeded-change runs write their evidence elsewhere
        evdir.mkdir(exist_ok=True, parents=True)
        name = f'{self.prop}.json' if not getattr(self, 'partial', False) else f'{self.prop}.partial.json'     # --only runs keep the full evidence
        (evdir / name).write_text(json.dumps(ev, indent=1, default=str) + '\n')
        print(f'[{self.prop}/{self.tier}] configs={self.configs} paths={self.paths} obligations={self.discharged}/'
              f'{self.obligations} queries={self.queries} solver={self.solver_s:.1f}s wall={wall:.1f}s '
              f'known={len(self.known_hits)} violations={len(new_violations)} inconclusive={len(self.inconclusive)}')
        if new_violations:
            seen = set()
            for v in new_violations:
                if v.get('signature') in seen:
                    continue
                seen.add(v.get('signature'))
                print(f"VIOLATION property={self.prop} replay={v.get('replay', '?')}")
                print(f"  signature: {v.get('signature')}")
                print(f"  detail: {str(v.get('detail'))[:600]}")
            for m in self.inconclusive[:10]:
                print(f'INCONCLUSIVE: {m}')
            return EXIT_VIOLATION
        if self.inconclusive:
            for m in self.inconclusive[:20]:
                print(f'INCONCLUSIVE: {m}')
            return EXIT_INCONCLUSIVE
        return EXIT_OK


def load_known_findings(prop: str) -> List[Dict[str, Any]]:
    f = VERIF / 'known_findings.json'
    if not f.exists():
        return []
    data = json.loads(f.read_text())
    return [k for k in data.get('known', []) if k.get('property') == prop]


def write_replay(prop: str, name: str, payload: Dict[str, Any]) -> str:
    d = VERIF / 'replays'
    d.mkdir(exist_ok=True)
    safe = ''.join(c if c.isalnum() or c in '-_.' else '_' for c in name)[:80]
    p = d / f'{prop}_{safe}.json'
    p.write_text(json.dumps(payload, indent=1, default=str) + '\n')
    return str(p)


def run_pool(fn: Callable[[Any], Dict[str, Any]], items: List[Any], report: Report, procs: Optional[int] = None,
             chunksize: int = 1) -> None:
    """run fn over items on a process pool (fork), merging the dict each call returns."""
    import multiprocessing as mp
    procs = procs or int(os.environ.get('FJV_PROCS', '0')) or min(16, os.cpu_count() or 4)
    if procs <= 1 or len(items) <= 1:
        for it in items:
            report.merge(fn(it))
        return
    import multiprocessing.pool
    fork = mp.get_context('fork')

    class _Proc(fork.Process):           # type: ignore[name-defined,misc]
        # workers replay counterexamples in child processes of their own (a wrong engine may crash or spin): not daemonic
        @property
        def daemon(self) -> bool:
            return False

        @daemon.setter
        def daemon(self, value: bool) -> None:
            pass

    class _Ctx(type(fork)):              # type: ignore[misc]
        Process = _Proc

    with multiprocessing.pool.Pool(min(procs, len(items)), context=_Ctx()) as pool:
        for part in pool.imap_unordered(fn, items, chunksize=chunksize):
            report.merge(part)
