"""pyspec - the FlipJump machine definition as 40 lines of plain Python (the reference the engines are compared with).

It is written over three tiny interfaces so that the same text runs
  * on plain ints (validation against the real featured loop on the repo's programs, counterexample replay), and
  * on pysym proxies under the path condition of an engine run (product-program comparison: its branches are then
    almost always already decided by the engine's path; where they are not, both sides are explored).

    mem.valid(wa) -> bool        is the word inside a segment?
    mem.load(wa)  -> int         current value of a valid word
    mem.store(wa, v)
    io.read() -> (available: bool, bit: bool)       next input bit, or end of input
    io.write(bit)

Per op: fetch the flip word, emit an output bit if it addresses the two output bits, consume one input bit if the
op covers the input bit, flip, and only then fetch the jump word and jump.
"""
from __future__ import annotations

from typing import Any, Tuple

CONTINUE, LOOPING, EOF, NULLIP, MEMERR = 10, 0, 1, 2, 5   # the last four = TerminationCause values


class Fault(Exception):
    def __init__(self, bit_address: Any):
        self.bit_address = bit_address


def read_word(w: int, mem: Any, bit_address: Any) -> Any:
    """the w-bit word starting at any bit address (little-endian across two words when unaligned)."""
    ww = w.bit_length() - 1
    mask = (1 << w) - 1
    wa = (bit_address >> ww) & mask
    off = bit_address & (w - 1)
    if off == 0:
        if not mem.valid(wa):
            raise Fault(wa << ww)
        return mem.load(wa)
    if wa == mask:
        raise Fault(bit_address)            # the high half would lie beyond the last word of the address space
    if not mem.valid(wa):
        raise Fault(wa << ww)
    hi = (wa + 1) & mask
    if not mem.valid(hi):
        raise Fault(hi << ww)
    return ((mem.load(wa) >> off) | (mem.load(hi) << (w - off))) & mask


def step(w: int, mem: Any, io: Any, ip: Any, rec: Any = None) -> Tuple[int, Any, bool]:
    """one op at bit address ip -> (status, next ip | fault address | None, op counted?)
    rec: optional dict that receives the flip word 'f' and jump word 'j' once fetched (for traces)."""
    ww = w.bit_length() - 1
    mask = (1 << w) - 1
    dw = 2 * w
    in_addr = 3 * w + w.bit_length()
    try:
        f = read_word(w, mem, ip)                               # 1. flip word
        if rec is not None:
            rec['f'] = f
        if f == dw or f == dw + 1:                              # 2. output
            io.write(f == dw + 1)
        if ip <= in_addr and in_addr < ip + dw:                 # 3. input
            available, bit = io.read()
            if not available:
                return EOF, None, False
            in_wa = in_addr >> ww
            if not mem.valid(in_wa):
                raise Fault(in_wa << ww)
            one = 1 << (in_addr & (w - 1))
            old = mem.load(in_wa)
            mem.store(in_wa, (old | one) if bit else (old & (mask - one)))
        fa = (f >> ww) & mask                                   # 4. flip
        if not mem.valid(fa):
            raise Fault(fa << ww)
        mem.store(fa, mem.load(fa) ^ (1 << (f & (w - 1))))
        j = read_word(w, mem, ip + w)                           # 5. jump word, after the flip
        if rec is not None:
            rec['j'] = j
    except Fault as e:
        return MEMERR, e.bit_address, False
    if j == ip and not (ip <= f and f < ip + dw):               # 6. halting self-loop (unless the op flips itself)
        return LOOPING, None, True
    if j < dw:
        return NULLIP, None, True
    return CONTINUE, j, True


# ------------------------------------------------------------------------------------------- concrete interfaces

class DictMem:
    """concrete image in the Reader's representation: present words + lazily-zero ranges."""

    def __init__(self, words: Any, zero_ranges: Any = ()):
        self.words = dict(words)
        self.ranges = [tuple(r) for r in zero_ranges]

    def valid(self, wa: int) -> bool:
        return wa in self.words or any(a <= wa < b for a, b in self.ranges)

    def load(self, wa: int) -> int:
        return self.words.get(wa, 0)

    def store(self, wa: int, v: int) -> None:
        self.words[wa] = v


class ListIO:
    def __init__(self, bits: Any):
        self.bits, self.pos, self.out, self.reads = list(bits), 0, [], 0

    def read(self) -> Tuple[bool, bool]:
        self.reads += 1
        if self.pos >= len(self.bits):
            return False, False
        self.pos += 1
        return True, bool(self.bits[self.pos - 1])

    def write(self, bit: bool) -> None:
        self.out.append(bool(bit))


def run_concrete(w: int, words: Any, zero_ranges: Any, in_bits: Any, max_ops: int) -> dict:
    mem, io = DictMem(words, zero_ranges), ListIO(in_bits)
    ip, ops, started, status, extra, trace = 0, 0, [], CONTINUE, None, []
    while len(started) < max_ops:
        started.append(ip)
        rec: dict = {}
        status, extra, counted = step(w, mem, io, ip, rec)
        ops += 1 if counted else 0
        if counted:
            trace.append((ip, rec['f'], rec['j']))
        if status != CONTINUE:
            break
        ip = extra
    return {'status': status, 'fault': extra if status == MEMERR else None, 'ip': ip, 'ops': ops, 'out': io.out,
            'reads': io.reads, 'started': started, 'words': mem.words, 'trace': trace}
