#!/bin/bash
# tools/try_seed.sh <property-id> <patch.diff> [extra check args]: apply a seeded change to /repo, run the quick check, undo it.
id=$1; patch=$2; shift 2
git -C /repo apply "$patch" || exit 9
if git -C /repo diff --name-only | grep -q '_fjcore.c'; then (cd /repo && /venv/bin/python build_fjcore.py >/dev/null 2>&1); fi
(cd /verif && ./check "$id" "$@"); rc=$?
changed_c=$(git -C /repo diff --name-only | grep -c '_fjcore.c')
git -C /repo checkout -- .
if [ "$changed_c" != "0" ]; then (cd /repo && /venv/bin/python build_fjcore.py >/dev/null 2>&1); fi
if git -C /repo status --short | grep -q .; then :; fi
echo "exit=$rc"
exit $rc
