#!/bin/bash
# tools/confirm_seed.sh <out-dir> <name>: independently confirm a seeded change in a fresh scratch worktree:
#  tests pass with it, demo fails with it, demo passes without it.  prints one JSON line.
out=$1; name=$2
wt=/tmp/wt/confirm_$name
git -C /repo worktree remove --force $wt >/dev/null 2>&1
git -C /repo worktree add --detach $wt HEAD >/dev/null 2>&1 || { echo "{\"name\":\"$name\",\"error\":\"worktree\"}"; exit 1; }
cd $wt
/venv/bin/python build_fjcore.py >/dev/null 2>&1
/venv/bin/python $out/demo.py >/dev/null 2>&1; demo_clean=$?
git apply $out/patch.diff || { echo "{\"name\":\"$name\",\"error\":\"apply\"}"; exit 1; }
/venv/bin/python build_fjcore.py >/dev/null 2>&1
tests=$(/venv/bin/python -m pytest -q -p no:cacheprovider --timeout=900 2>&1 | tail -1)
/venv/bin/python $out/demo.py >/dev/null 2>&1; demo_mut=$?
cd /
git -C /repo worktree remove --force $wt
echo "{\"name\":\"$name\",\"tests_with_change\":\"$tests\",\"demo_exit_clean\":$demo_clean,\"demo_exit_with_change\":$demo_mut}"
