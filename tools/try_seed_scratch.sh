#!/bin/bash
# tools/try_seed_scratch.sh <property-id> <patch.diff> <name> [extra check args]: run a check against a scratch worktree of /repo with a
# seeded change applied (FJ_REPO), evidence to /var/tmp; several of these can run side by side; /repo itself is not touched.
id=$1; patch=$2; name=$3; shift 3
wt=/tmp/wt/s_$name
git -C /repo worktree remove --force $wt >/dev/null 2>&1
git -C /repo worktree add --detach $wt HEAD >/dev/null 2>&1 || exit 9
git -C $wt apply "$patch" || exit 9
(cd /verif && FJ_REPO=$wt FJV_EVIDENCE_DIR=/var/tmp/fjv-seed-evidence/$name ./check "$id" "$@"); rc=$?
git -C /repo worktree remove --force $wt
echo "exit=$rc"
exit $rc
