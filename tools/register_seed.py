#!/usr/bin/env python3
"""tools/register_seed.py <prop> <name> <out-dir> <confirm-json-line-file> <detected-by> : copy a confirmed seeded change into seeded/<name>/"""
import json, shutil, sys, os
prop, name, out, confirm_log, detected = sys.argv[1:6]
conf = None
for line in open(confirm_log):
    try:
        d = json.loads(line)
    except Exception:
        continue
    if d.get('name') == name:
        conf = d
assert conf, 'no confirmation record'
assert conf['demo_exit_clean'] == 0 and conf['demo_exit_with_change'] != 0 and 'passed' in conf['tests_with_change'] and 'failed' not in conf['tests_with_change'], conf
dst = os.path.join(os.path.dirname(os.path.abspath(__file__)), '..', 'seeded', name)
os.makedirs(dst, exist_ok=True)
for f in ('patch.diff', 'demo.py', 'notes.md'):
    if os.path.exists(os.path.join(out, f)):
        shutil.copy(os.path.join(out, f), os.path.join(dst, f))
notes = open(os.path.join(out, 'notes.md')).read() if os.path.exists(os.path.join(out, 'notes.md')) else ''
meta = {'property': prop, 'origin': 'independent sub-agent given only the property text and a scratch worktree',
        'needs_to_manifest': notes.strip()[:1500],
        'confirmed_in_scratch_worktree': {'cmd': 'tools/confirm_seed.sh', **conf},
        'detected_by': detected}
json.dump(meta, open(os.path.join(dst, 'meta.json'), 'w'), indent=1)
print('registered', name)
