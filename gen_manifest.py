#!/usr/bin/env python3
"""regenerates MANIFEST.json from fjv/claims.py (kept next to the checks so it cannot drift)."""
import json
import os
import sys

HERE = os.path.dirname(os.path.abspath(__file__))
sys.path.insert(0, HERE)
from fjv.claims import CLAIMED, NOT_APPLICABLE, PENDING_REASON  # noqa: E402

props = [json.loads(line) for line in open(os.path.join(HERE, 'properties.jsonl'))]
checks, na = [], []
for p in props:
    i = p['id']
    if i in CLAIMED:
        c = CLAIMED[i]
        checks.append({
            'property_id': i, 'quick_cmd': f'./check {i} --tier quick', 'thorough_cmd': f'./check {i} --tier thorough',
            'evidence_file': f'evidence/{i}.json', 'replay_cmd_template': f'./check {i} --replay {{path}}',
            'engine': 'fjv', 'level_claimed': {'category': 'model_checking', 'text': c['text'], 'design_ref': c['ref']},
            'level_note': c['note'], 'technique': c['technique']})
    else:
        na.append({'property_id': i, 'reason': NOT_APPLICABLE.get(i, PENDING_REASON)})
m = {
    'version': 1,
    'setup_cmd': './setup.sh',
    'hooks': {'guard': 'FLIPJUMP_VERIF', 'enable': 'none needed: no hook commits exist; checks import /repo as it is',
              'baseline_off_cmd': 'cd /repo && /venv/bin/python -m pytest -ra -q -p no:cacheprovider --timeout=900 '
                                  '--continue-on-collection-errors',
              'source_commits': [], 'add_only': True},
    'engines': [{'name': 'fjv', 'path': 'fjv/', 'serves_properties': sorted(CLAIMED),
                 'kind_free_text': 'solver-based bounded checking: pysym (symbolic execution of the real Python code on z3 '
                                   'proxies), llsx (LLVM-IR of _fjcore.c over z3 bit-vectors), fjsx (symbolic FlipJump machine '
                                   'on the real assembled stl)'}],
    'checks': checks,
    'not_applicable': na,
    'notes': 'exit 0 = every obligation unsat within the stated bounds; exit 1 = counterexample replayed on the real code '
             '(VIOLATION line); exit 2 = inconclusive (solver unknown, bound hit, non-reproducing model) - never reported as '
             'success.',
}
json.dump(m, open(os.path.join(HERE, 'MANIFEST.json'), 'w'), indent=1)
print('claimed', sorted(CLAIMED), 'not claimed', len(na))
