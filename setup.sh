#!/bin/bash
# Build the verification environment offline: an overlay venv on /venv (the repo's own
# interpreter + dependencies) with z3-solver and crosshair-tool from the offline wheelhouse.
set -e
cd "$(dirname "$0")"
V=.venv
if [ ! -x $V/bin/python ] || ! $V/bin/python -c "import z3, sly" >/dev/null 2>&1; then
  rm -rf $V
  /venv/bin/python -m venv $V
  SP=$($V/bin/python -c "import sysconfig; print(sysconfig.get_paths()['purelib'])")
  printf "import site; site.addsitedir('/venv/lib/python3.12/site-packages')\n" > "$SP/_fjv_overlay.pth"
  PIP_NO_INDEX=1 $V/bin/python -m pip install -q --no-index --find-links /opt/veriftools/wheels z3-solver crosshair-tool >/dev/null 2>&1 \
    || PIP_NO_INDEX=1 $V/bin/python -m pip install -q --no-index --find-links /opt/veriftools/wheels z3-solver
fi
$V/bin/python -c "import z3, sly; print('fjv env ok: z3', z3.get_version_string())"
